#!/usr/bin/python3
"""census of C01 divergences *outside* the deciding sub-space (edits through syntactically broken states); build-time tool.
Writes the shortest distinct witnesses to /verif/witnesses/K-C01-broken-*.json and prints a summary."""
import sys, random, json, collections
sys.path.insert(0, '/verif')
from harness import gen, layout, edits
from harness.core import pmap, Adaptor
from harness.checks import c02gen

FRAG = ["(", ")", "{", "}", ";", ":=", "if", "else", "while", "x", "1", ",", "[", "]", "var", "proc", "type", ":", "=", "<", "+", "// c\n", "'", "0x"]

def work(seed):
    rng = random.Random("c01census/%s" % seed); ad = Adaptor(); out = []; n = 0; nbroken = 0
    for it in range(1500):
        P = gen.generate(rng.getrandbits(32), size=rng.choice([1, 1, 2]), depth=rng.choice([1, 2]), edepth=1, docs=.1, stmt_comments=.05, lits=False, nonascii=False, max_stmts=2)
        text = layout.layout(P, rng, "spaced")
        toks = [t for t in P.toks if t.kind != "comment"]
        t0 = text
        steps = []
        for k in range(rng.randint(1, 3)):
            b = t0.encode()
            tk = rng.choice(toks)
            op = rng.random()
            # token-level damage on the *current* text: find the token text near its original place is not tracked; use byte ranges of random lexemes instead
            import re
            words = [(m.start(), m.end()) for m in re.finditer(rb"[A-Za-z_0-9]+|:=|[(){}\[\];:,=<>+\-*/#]", b)]
            if not words: break
            a, e = rng.choice(words)
            if op < .4: ch = [a, e, ""]
            elif op < .7: ch = [a, a, rng.choice(FRAG) + " "]
            else: ch = [a, e, rng.choice(FRAG)]
            steps.append([ch]); t0 = edits.apply_change(t0, ch)
        if not steps: continue
        r = ad.call(op="history", text=text, steps=steps)
        n += len(steps)
        if r.get("div") or r.get("update_panic"):
            k = (r.get("div") or {}).get("step", r.get("step"))
            cur = text
            for s in steps[:k]:
                for ch in s: cur = edits.apply_change(cur, ch)
            ch = steps[k][0]
            r2 = ad.call(op="history", text=cur, steps=[[ch]])
            if r2.get("div") or r2.get("update_panic"):
                d = r2.get("div")
                sig = ("panic:" + r2["update_panic"]["message"][:40]) if r2.get("update_panic") else ",".join(d["what"]) + "|" + str((d["detail"].get("tree_diff") or {}).get("updated", [""])[0]) + ">" + str((d["detail"].get("tree_diff") or {}).get("fresh", [""])[0])
                out.append((len(cur), sig, cur, ch))
    ad.close()
    return n, out

if __name__ == "__main__":
    tot = 0; allw = []
    for n, out in pmap(work, range(int(sys.argv[1]) if len(sys.argv) > 1 else 16)):
        tot += n; allw += out
    print("steps", tot, "divergences", len(allw), "rate %.3f%%" % (100.0 * len(allw) / max(tot, 1)))
    by = collections.defaultdict(list)
    for w in allw: by[w[1]].append(w)
    print("distinct signatures", len(by))
    keep = []
    for sig, ws in sorted(by.items(), key=lambda kv: -len(kv[1])):
        ws.sort(key=lambda w: w[0]); keep.append(ws[0])
        print("%4d %s | shortest %d bytes" % (len(ws), sig, ws[0][0]))
    json.dump([{"signature": w[1], "text": w[2], "change": w[3]} for w in keep], open("/tmp/c01census.json", "w"), indent=1)
