# C03 part 1: valid programs get no diagnostics
from lsp import *
from splgen import *
import sys
s = Server()
bad = 0
N = int(sys.argv[1])
for seed in range(N):
    g, text = generate(seed)
    uri = "file:///v%d.spl" % seed
    s.open(uri, text)
    d = s.diags(uri)
    if d:
        bad += 1
        if bad <= 5:
            print("SEED", seed); print(text); print(d)
print("programs", N, "with diagnostics", bad)
print(s.close())
