# C05 containment probe
from lsp import *
from splgen import *
import sys, collections, random
N = int(sys.argv[1])
S = Server()
stat = collections.Counter(); ex = {}
def note(k, info):
    stat[k] += 1
    if k not in ex: ex[k] = info
ALPH = ["(", ")", "[", "]", "{", "}", ";", ":", ":=", "=", "<", "+", ",", "x", "1", "if", "else", "while", "array", "of", "ref", "var", "-", "*"]
def hovers(uri, tb, toks):
    out = {}
    for t in toks:
        if t.kind == "id" and t.role == "decl":
            l, c = pos_of(tb, t.start)
            r = S.request("textDocument/hover", tdp(uri, l, c)).get("result")
            out[id(t)] = r["contents"]["value"] if r else None
    return out
for seed in range(N):
    rng = random.Random(seed)
    g = Gen(rng).program()
    decls = sorted(g.types + g.procs, key=lambda d: d.first_tok.idx)
    if len(decls) < 2: continue
    toks = g.toks
    base_text = layout(toks, random.Random(seed), style="plain")
    for trial in range(12):
        d = rng.choice(decls)
        lo, hi = d.first_tok.idx, d.last_tok.idx
        cand = [i for i in range(lo, hi + 1) if toks[i].text not in ("proc", "type") and toks[i].kind != "comment"]
        if not cand: continue
        i = rng.choice(cand)
        op = rng.choice(["del", "ins", "repl"])
        new = Tok("sym", rng.choice(ALPH))
        if new.text.isalpha(): new.kind = "kw" if new.text in KEYWORDS else "id"
        if new.text == "1": new.kind = "int"
        if op == "del": s2 = toks[:i] + toks[i+1:]
        elif op == "ins": s2 = toks[:i] + [new] + toks[i:]
        else: s2 = toks[:i] + [new] + toks[i+1:]
        text = layout(s2, random.Random(seed), style="plain")
        tb = text.encode()
        uri = "file:///c.spl"
        try:
            S.open(uri, text)
            diags = S.diags(uri)
        except (EOFError, TimeoutError) as e:
            note("CRASH", (seed, text)); S = Server(); continue
        # damaged decl byte extent in new text: from first tok of d to last tok of d (those still present) including inserted
        members = [t for t in s2 if (t is new) or (t.idx is not None and lo <= t.idx <= hi)]
        a = pos_of(tb, members[0].start); b = pos_of(tb, members[-1].end)
        out = [x for x in diags if not (a <= (x["range"]["start"]["line"], x["range"]["start"]["character"]) and (x["range"]["end"]["line"], x["range"]["end"]["character"]) <= b)]
        syn_out = [x for x in out if x["message"].startswith(("expected", "missing", "unexpected"))]
        other_out = [x for x in out if x not in syn_out]
        key = "%s %s" % (op, toks[i].text if toks[i].kind in ("sym", "kw") else toks[i].kind)
        if syn_out: note("BAD syntax diag outside damaged decl", (seed, key, new.text, syn_out[:2], text[max(0,members[0].start-10):members[-1].end+40]))
        else: note("ok syntax contained", None)
        # symbols of other declarations still hover-able
        lost = []
        for od in decls:
            if od is d: continue
            l, c = pos_of(tb, od.name_tok.start)
            r = S.request("textDocument/hover", tdp(uri, l, c)).get("result")
            if not r: lost.append(od.name)
        if lost: note("BAD other decl lost", (seed, key, new.text, lost, text[max(0,members[0].start-10):members[-1].end+40]))
        else: note("ok others navigable", None)
        if other_out and not syn_out and not lost:
            # semantic errors elsewhere may be legit (e.g. damaged proc signature -> call mismatch)
            note("info semantic diag elsewhere", (seed, key, other_out[:1]))
for k in sorted(stat): print(stat[k], k, str(ex[k])[:700] if k.startswith(("BAD", "CRASH")) else "")
