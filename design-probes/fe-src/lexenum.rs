use spl_frontend::{lexer, TextChange, tokens::*, Shiftable};
use std::panic;
fn strings(alpha: &[&str], maxlen: usize) -> Vec<String> {
    let mut out = vec![String::new()]; let mut frontier = vec![String::new()];
    for _ in 0..maxlen { let mut next = vec![]; for s in &frontier { for a in alpha { let mut t = s.clone(); t.push_str(a); next.push(t); } } out.extend(next.iter().cloned()); frontier = next; }
    out
}
fn bounds(s: &str) -> Vec<usize> { let mut v: Vec<usize> = s.char_indices().map(|(i, _)| i).collect(); v.push(s.len()); v }
fn main() {
    let a: Vec<String> = std::env::args().collect();
    let l: usize = a[1].parse().unwrap(); let r: usize = a[2].parse().unwrap();
    let show: usize = a.get(3).map(|s| s.parse().unwrap()).unwrap_or(30);
    let alpha = ["a", "i", "f", "0", "x", "1", "'", "/", "\n", " ", "<", "=", ":", "é", "\\", "n"];
    panic::set_hook(Box::new(|_| {}));
    let texts = strings(&alpha, l); let repls = strings(&alpha, r);
    let (mut n, mut bad, mut badwin, mut panics) = (0u64, 0u64, 0u64, 0u64);
    let mut shown = 0;
    let mut cats: std::collections::BTreeMap<String, u64> = Default::default();
    for t in &texts {
        let old = lexer::lex(t); let b = bounds(t);
        for i in 0..b.len() { for j in i..b.len() { for rep in &repls {
            if i == j && rep.is_empty() { continue; }
            n += 1;
            let ch = TextChange { range: b[i]..b[j], text: rep.clone() };
            let mut nt = t.clone(); nt.replace_range(ch.range.clone(), rep);
            let fresh = lexer::lex(&nt);
            let o2 = old.clone(); let nt2 = nt.clone(); let ch2 = ch.clone();
            match panic::catch_unwind(move || lexer::update(&nt2, o2, &ch2)) {
                Err(_) => { panics += 1; if shown < show { shown += 1; println!("PANIC {:?} {:?}", t, ch); } }
                Ok((toks, tc)) => {
                    if toks != fresh {
                        bad += 1;
                        // categorise: only-errors-differ?
                        let same_shape = toks.len() == fresh.len() && toks.iter().zip(&fresh).all(|(x, y)| x.token_type == y.token_type && x.range == y.range);
                        let cat = if same_shape { "errors-only".to_string() } else {
                            // first differing token kinds
                            let k = toks.iter().zip(&fresh).position(|(x, y)| x != y).unwrap_or(toks.len().min(fresh.len()));
                            format!("shape: got {:?} want {:?}", toks.get(k).map(|t| std::mem::discriminant(&t.token_type)), fresh.get(k).map(|t| std::mem::discriminant(&t.token_type))) };
                        *cats.entry(cat).or_default() += 1;
                        if shown < show { shown += 1; println!("DIV {:?} {:?} -> {:?}\n   got  {:?}\n   want {:?}", t, ch, nt, toks.iter().map(|t| format!("{}@{:?}e{}", t.token_type, t.range, t.errors.len())).collect::<Vec<_>>(), fresh.iter().map(|t| format!("{}@{:?}e{}", t.token_type, t.range, t.errors.len())).collect::<Vec<_>>()); }
                    } else {
                        // window truthfulness
                        let d = tc.deletion_range.clone(); let ins = tc.insertion_len;
                        let off = rep.len() as isize - (b[j] - b[i]) as isize;
                        let head_ok = d.start <= old.len() && d.start <= toks.len() && old[..d.start] == toks[..d.start];
                        let tail_old: Vec<Token> = if d.end <= old.len() { old[d.end..].iter().cloned().map(|t| { let s = (t.range.start as isize + off) as usize; let e = (t.range.end as isize + off) as usize; Token { range: s..e, errors: t.errors.into_iter().map(|er| spl_frontend::error::SplError(((er.0.start as isize + off) as usize)..((er.0.end as isize + off) as usize), er.1)).collect(), ..t } }).collect() } else { vec![] };
                        let tail_ok = d.start + ins <= toks.len() && tail_old == toks[d.start + ins..];
                        if !(head_ok && tail_ok) { badwin += 1; if shown < show { shown += 1; println!("WINDOW {:?} {:?} tc={:?} head_ok={} tail_ok={}", t, ch, tc, head_ok, tail_ok); } }
                    }
                }
            }
        }}}
    }
    println!("texts={} cases={} token-div={} window-bad={} panics={}", texts.len(), n, bad, badwin, panics);
    for (k, v) in cats { println!("  {} x{}", k, v); }
}
