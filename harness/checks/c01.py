"""C01 — incremental re-analysis equals analysis from scratch.
Oracle (metamorphic): the batch mode of the same build.  Library level: derived `==` on tokens / ast / table of the updated
AnalyzedSource vs AnalyzedSource::new(final text), errors() equality, tree invariants — evaluated in the adaptor after every
step of a history in which step k+1 starts from the *updated* state of step k.  LSP level: last publishDiagnostics and a
request panel of the edited document vs the same text opened fresh under another URI on the same server.
Every state is compared: atomic valid->valid edits, the same edits typed key by key through syntactically broken texts,
single-token damages with their repair, and line/block editor commands (duplicate, delete, move, comment, cut/paste, join) (see DESIGN.md section 5/C01); the witnesses of the divergences repaired in the build
phase are replayed as regression tests."""
import json, os, random
from ..core import Adaptor, Part, pmap, NCPU, server_bin, adaptor_bin, VERIF
from ..client import Server, ServerDied, Timeout, FrameError, tdp
from .. import gen, layout, edits


def make_history(rng, maxsteps, single=False, sizes=(1, 2, 3, 4, 6, 8)):
    seed = rng.getrandbits(32)
    doc = edits.Doc(seed, rng, typed=rng.random() < .75, eol=rng.choice(["\n", "\n", "\r\n"]), style=rng.choice(["random", "random", "spaced", "lines"]),
                    size=rng.choice(sizes), depth=rng.choice([1, 2, 3, 4]), edepth=rng.choice([1, 2, 3]))
    text0 = doc.text
    steps = []; labels = []
    for _ in range(rng.randint(1, maxsteps)):
        batch = []
        for _ in range(1 if single else rng.choice([1, 1, 1, 1, 2, 3, 4])):
            r = doc.step(widen=0.0) if single else doc.step()
            if r is None: break
            labels.append(r[0]); batch.append(r[1])
        if batch: steps.append(batch)
        if not single and rng.random() < .04: steps.append([]); labels.append("empty_batch/no-change")        # a notification without content changes
    return text0, steps, labels, doc


def _chars(b):
    """byte offsets of the character boundaries of b"""
    return [i for i in range(len(b) + 1) if i == len(b) or (b[i] & 0xC0) != 0x80]


def expand_typing(rng, text0, steps):
    """the same history as a user produces it: every replaced range is deleted (at once = selection, or by backspaces from its end,
    or by the delete key from its start) and the new text is typed character by character or pasted in small chunks.
    Most intermediate texts are syntactically broken; the last step of every edit reaches the valid text of the original history."""
    out = []; cur = text0.encode()
    for batch in steps:
        for (a, b, new) in batch:
            old = cur[a:b]
            if old:
                how = rng.choice(["select", "backspace", "delete", "backspace"]) if len(old) < 60 else "select"
                if how == "select": out.append([[a, b, ""]])
                else:
                    bs = [a + i for i in _chars(old)]
                    if how == "backspace":
                        for i in range(len(bs) - 1, 0, -1): out.append([[bs[i - 1], bs[i], ""]])
                    else:
                        for i in range(1, len(bs)): out.append([[a, a + bs[i] - bs[i - 1], ""]])
            pos = a
            chunk = rng.choice([1, 1, 1, 2, 5])
            i = 0
            while i < len(new):
                n = 1 if chunk == 1 else rng.randint(1, chunk)
                piece = new[i:i + n]; i += n
                out.append([[pos, pos, piece]]); pos += len(piece.encode())
                if rng.random() < .03 and piece:          # typo: one more character, removed again by backspace
                    out.append([[pos, pos, rng.choice("x;({ 1")]]); out.append([[pos, pos + 1, ""]])
            cur = cur[:a] + new.encode() + cur[b:]
    return out


DAMAGE = ["(", ")", "{", "}", ";", ":=", "if", "else", "while", "x", "1", ",", "[", "]", "var", "proc", "type", ":", "=", "<", "+", "-", "// c\n", "'", "0x", "of", "array", "ref", "main", "'a'", "*"]
_LEXEME = None


def make_damage_history(rng):
    """a valid program and 1-4 single-token damages (delete / insert / replace a lexeme), half of the time followed by their
    repair in reverse order: every state but the first (and the last after a complete repair) is syntactically broken"""
    import re
    global _LEXEME
    if _LEXEME is None: _LEXEME = re.compile(rb"//[^\n]*|'.'|'\\n'|[A-Za-z_0-9]+|:=|<=|>=|[(){}\[\];:,=<>+\-*/#]")
    P = gen.generate(rng.getrandbits(32), size=rng.choice([1, 1, 2, 3]), depth=rng.choice([1, 2, 3]), edepth=rng.choice([1, 2]), docs=.15, stmt_comments=.08,
                     typed=rng.random() < .7, max_stmts=rng.choice([2, 3]))
    text = layout.layout(P, rng, rng.choice(["spaced", "spaced", "random", "lines"]), rng.choice(["\n", "\n", "\r\n"]))
    cur = text; steps = []; undo = []
    for _ in range(rng.randint(1, 4)):
        b = cur.encode()
        words = [(m.start(), m.end()) for m in _LEXEME.finditer(b)]
        if not words: break
        a, e = rng.choice(words)
        op = rng.random()
        if op < .4: ch = [a, e, ""]
        elif op < .7: ch = [a, a, rng.choice(DAMAGE) + " "]
        else: ch = [a, e, rng.choice(DAMAGE)]
        undo.append([ch[0], ch[0] + len(ch[2].encode()), b[ch[0]:ch[1]].decode()])
        steps.append([ch]); cur = edits.apply_change(cur, ch)
    if rng.random() < .5: steps += [[u] for u in reversed(undo)]
    return text, steps


def make_block_history(rng):
    """line- and block-oriented editing of a valid program, the way an editor's commands do it: duplicate / delete / move a run of
    lines, comment a line out and in again, cut a span and paste it elsewhere, paste a span copied from elsewhere, indent a run of
    lines; half of the time everything is undone in reverse order. Most states are syntactically broken; every state is compared."""
    P = gen.generate(rng.getrandbits(32), size=rng.choice([1, 2, 2, 3, 4]), depth=rng.choice([1, 2, 3]), edepth=rng.choice([1, 2]), docs=.2, stmt_comments=.1,
                     typed=rng.random() < .7, max_stmts=rng.choice([2, 3, 4]))
    eol = rng.choice(["\n", "\n", "\r\n"])
    text = layout.layout(P, rng, rng.choice(["spaced", "lines", "lines", "random"]), eol)
    cur = text.encode(); steps = []; undo = []; labels = []

    def lines(b):
        out = []; a = 0
        while a < len(b):
            e = b.find(b"\n", a); e = len(b) if e < 0 else e + 1
            out.append((a, e)); a = e
        return out or [(0, 0)]

    def do(batch, label):
        nonlocal cur
        un = []
        for (a, e, new) in batch:
            nb = new.encode()
            un.append([a, a + len(nb), cur[a:e].decode()])
            cur = cur[:a] + nb + cur[e:]
        steps.append([list(c) for c in batch]); undo.append(list(reversed(un))); labels.append(label)

    def charpos(b, i):
        while 0 < i < len(b) and (b[i] & 0xC0) == 0x80: i -= 1
        return i

    for _ in range(rng.randint(1, 5)):
        ls = lines(cur)
        i = rng.randrange(len(ls)); j = min(len(ls), i + rng.choice([1, 1, 1, 2, 3, 6]))
        a, e = ls[i][0], ls[j - 1][1]
        blk = cur[a:e].decode()
        op = rng.choice(["dup", "del", "move", "comment", "uncomment", "cutpaste", "pastecopy", "indent", "join"])
        if op == "dup":
            if not blk.endswith("\n"): blk2 = eol + blk
            else: blk2 = blk
            do([(e, e, blk2)], "block/dup")
        elif op == "del":
            do([(a, e, "")], "block/del")
        elif op == "move":
            k = rng.randrange(len(ls)); t = ls[k][0]
            if a <= t <= e: continue
            if not blk.endswith("\n"): continue
            if t < a: batch = [(a, e, ""), (t, t, blk)]
            else: batch = [(t, t, blk), (a, e, "")]
            if rng.random() < .5: do(batch, "block/move")
            else:
                do(batch[:1], "block/move1"); do(batch[1:], "block/move2")
        elif op == "comment":
            do([(ls[i][0], ls[i][0], "//")], "block/comment")
        elif op == "uncomment":
            cs = [l for l in ls if cur[l[0]:l[1]].lstrip(b" \t").startswith(b"//")]
            if not cs: continue
            l = rng.choice(cs); q = cur.find(b"//", l[0])
            do([(q, q + 2, "")], "block/uncomment")
        elif op in ("cutpaste", "pastecopy"):
            x, y = sorted(charpos(cur, rng.randrange(len(cur) + 1)) for _ in range(2))
            if rng.random() < .6: y = charpos(cur, min(y, x + rng.choice([2, 5, 12, 30])))
            if y <= x: continue
            span = cur[x:y].decode()
            t = charpos(cur, rng.randrange(len(cur) + 1))
            if op == "pastecopy": do([(t, t, span)], "block/pastecopy")
            else:
                if x < t < y: continue
                do([(x, y, "")], "block/cut")
                t2 = t if t <= x else t - (y - x)
                do([(t2, t2, span)], "block/paste")
        elif op == "indent":
            batch = []
            for (la, le) in reversed(ls[i:j]): batch.append((la, la, rng.choice(["  ", "\t"])))
            do(batch, "block/indent")
        elif op == "join":
            # the line break at the end of line i is replaced by a blank (or by nothing)
            le = ls[i][1]
            if le == 0 or cur[le - 1:le] != b"\n": continue
            s0 = le - 2 if cur[le - 2:le] == b"\r\n" else le - 1
            do([(s0, le, rng.choice([" ", ""]))], "block/join")
    if rng.random() < .5:
        for un, l in zip(reversed(undo), reversed(labels)):
            steps.append(un); labels.append(l + "-undo")
    return text, steps, labels


def worker_block(args):
    seed, nhist = args
    rng = random.Random("C01/block/%s" % seed)
    ad = Adaptor(); part = Part()
    for it in range(nhist):
        text0, steps, labels = make_block_history(rng)
        if not steps: continue
        sc = {"kind": "history", "text": text0, "steps": steps, "labels": labels}
        res = ad.call(op="history", text=text0, steps=steps)
        if res.get("div") or res.get("update_panic") is not None: sc["steps"] = steps[:res.get("step", (res.get("div") or {}).get("step", len(steps))) + 1]
        ok = judge_history(part, res, sc, labels + ["?"])
        part.cnt("block_steps", res.get("steps_done", 0))
        if ok:
            for l in labels: part.see(l)
            if it == 0: part.sample({"part": "block-editing history", "initial_text": text0[:120], "operations": labels[:6], "changes": steps[:3]}, 1)
    ad.close()
    return part


def worker_damage(args):
    seed, nhist = args
    rng = random.Random("C01/damage/%s" % seed)
    ad = Adaptor(); part = Part()
    for it in range(nhist):
        text0, steps = make_damage_history(rng)
        if not steps: continue
        sc = {"kind": "history", "text": text0, "steps": steps, "labels": ["damage"] * len(steps)}
        res = ad.call(op="history", text=text0, steps=steps)
        if res.get("div") or res.get("update_panic") is not None: sc["steps"] = steps[:res.get("step", (res.get("div") or {}).get("step", len(steps))) + 1]
        ok = judge_history(part, res, sc, ["damage"] * (len(steps) + 1))
        part.cnt("damage_steps", res.get("steps_done", 0))
        if ok:
            part.see("damage:%d" % len(steps))
            if it == 0: part.sample({"part": "damage history", "initial_text": text0[:120], "changes": steps[:4]}, 1)
    ad.close()
    return part


def worker_typing(args):
    seed, nhist = args
    rng = random.Random("C01/typing/%s" % seed)
    ad = Adaptor(); part = Part()
    for it in range(nhist):
        text0, steps, labels, doc = make_history(rng, 5, single=True, sizes=(1, 1, 2, 3, 4))
        if not steps: continue
        keys = expand_typing(rng, text0, steps)
        sc = {"kind": "history", "text": text0, "steps": keys, "labels": labels}
        res = ad.call(op="history", text=text0, steps=keys)
        if res.get("div") or res.get("update_panic") is not None: sc["steps"] = keys[:res.get("step", (res.get("div") or {}).get("step", len(keys))) + 1]
        ok = judge_history(part, res, sc, ["typing"] * (len(keys) + 1))
        part.cnt("keystroke_steps", res.get("steps_done", 0))
        if ok:
            for l in labels: part.see("typed:" + l.split("/")[0])
            if it == 0: part.sample({"part": "typing history", "initial_text": text0[:120], "edit_classes": labels[:5], "first_keystrokes": keys[:12], "judged_steps": res.get("judged")}, 1)
    ad.close()
    return part


def judge_history(part, res, sc, labels):
    if "steps_done" not in res:
        part["inconclusive"].append("adaptor: %r" % (res,)); return False
    if res.get("harness_error"):
        part["inconclusive"].append("harness produced a bad change: %s" % res["harness_error"]); return False
    n = res["steps_done"]
    part.ev(max(n, 1))
    if res.get("fresh_panic"):
        part.fail("analysis from scratch panicked at step %s: %s" % (res.get("step"), res["fresh_panic"]), sc); return False
    if res.get("update_panic"):
        part.fail("AnalyzedSource::update panicked at step %s (%s): %s" % (res["step"], labels[:res["step"] + 1][-1:] , res["update_panic"]), sc); return False
    if res.get("adaptor_died") is not None:
        part.fail("process died during the history (status %s)" % res["adaptor_died"], sc); return False
    if res.get("div"):
        d = res["div"]
        part.fail("after step %d the updated document differs from a fresh analysis in %s: %s" % (d["step"], d["what"], json.dumps(d["detail"])[:500]), sc); return False
    return True


def worker_lib(args):
    seed, nhist, maxsteps = args
    rng = random.Random("C01/lib/%s" % seed)
    ad = Adaptor(); part = Part()
    for it in range(nhist):
        text0, steps, labels, doc = make_history(rng, maxsteps)
        if not steps: continue
        sc = {"kind": "history", "text": text0, "steps": steps, "labels": labels}
        res = ad.call(op="history", text=text0, steps=steps)
        ok = judge_history(part, res, sc, labels)
        for l in labels: part.cnt("edit:" + l.split("/")[0])
        if ok:
            for l in labels: part.see(l)
            for w in res.get("windows", []): part.add("token_change_windows(deleted,inserted)", "%d,%d" % (min(w[1] - w[0], 99), min(w[2], 99)))
            c = res.get("counters", [0, 0, 0])
            part.cnt("nodes_reused", c[0]); part.cnt("nodes_reparsed", c[1]); part.cnt("nodes_invalidated", c[2])
            part.cnt("histories_ending_ill_typed" if res.get("final_errors") else "histories_ending_well_typed")
            if it == 0: part.sample({"part": "library history", "initial_text": text0[:200], "edit_classes": labels[:8], "first_changes": steps[0][:2], "windows": res.get("windows", [])[:4]}, 1)
    ad.close()
    return part


# ------------------------------------------------------------------------------------------------ LSP level
PANEL_DOC = [("textDocument/semanticTokens/full", {}), ("textDocument/foldingRange", {}), ("textDocument/formatting", {"options": {"tabSize": 4, "insertSpaces": True}})]
PANEL_POS = ["textDocument/hover", "textDocument/definition", "textDocument/references", "textDocument/typeDefinition", "textDocument/completion", "textDocument/signatureHelp"]


def norm(obj, uri):
    return json.loads(json.dumps(obj).replace(uri, "URI"))


def panel(srv, uri, text, positions):
    out = []
    for m, extra in PANEL_DOC:
        p = {"textDocument": {"uri": uri}}; p.update(extra)
        out.append(norm(srv.request(m, p).get("result"), uri))
    for (l, c) in positions:
        for m in PANEL_POS:
            p = tdp(uri, l, c)
            if m.endswith("references"): p["context"] = {"includeDeclaration": True}
            r = srv.request(m, p)
            res = r.get("result")
            if m.endswith("completion") and isinstance(res, list): res = sorted((x["label"], x.get("kind")) for x in res)
            out.append(norm(res if "error" not in r else {"error": r["error"]}, uri))
    return out


def worker_lsp(args):
    seed, nhist, maxsteps = args
    rng = random.Random("C01/lsp/%s" % seed)
    part = Part(); srv = None; ndoc = 0
    for it in range(nhist):
        text0, steps, labels, doc = make_history(rng, maxsteps)
        if not steps: continue
        sc = {"kind": "lsp-history", "text": text0, "steps": steps, "labels": labels}
        try:
            if srv is None or not srv.alive(): srv = Server(server_bin("rel"))
            ndoc += 1
            uri = "file:///c01/edited%d.spl" % ndoc
            srv.drop_notes(); srv.open(uri, text0)
            text = text0
            for k, batch in enumerate(steps):
                changes = []
                for ci, ch in enumerate(batch):
                    T = layout.Text(text)
                    new_text = edits.apply_change(text, ch)
                    if ci > 0 and rng.random() < .15:
                        changes.append({"text": new_text}); part.cnt("full_text_changes_inside_batches")   # the same step delivered as a full-text replacement
                    else:
                        changes.append({"range": T.rng(ch[0], ch[1]), "text": ch[2]})
                    text = new_text
                srv.change(uri, changes)
                part.ev()
                check_now = k == len(steps) - 1 or rng.random() < .3
                if not check_now: continue
                twin = "file:///c01/twin%d_%d.spl" % (ndoc, k)
                srv.open(twin, text)
                d1 = norm(srv.diags(uri), uri); d2 = norm(srv.diags(twin), twin)
                if d1 != d2:
                    part.fail("after step %d the diagnostics of the edited document differ from those of the same text opened fresh: %r vs %r" % (k, d1[:2] if d1 else d1, d2[:2] if d2 else d2),
                              dict(sc, steps=steps[:k + 1])); break
                T = layout.Text(text)
                ids = [t for t in doc.P.toks if t.kind == "id"] if k == len(steps) - 1 else []
                positions = [T.pos(t.start) for t in rng.sample(ids, min(6, len(ids)))] + [(rng.randrange(T.nlines()), rng.randrange(12)) for _ in range(3)]
                p1 = panel(srv, uri, text, positions); p2 = panel(srv, twin, text, positions)
                srv.close_doc(twin)
                if p1 != p2:
                    i = next(i for i, (x, y) in enumerate(zip(p1, p2)) if x != y)
                    names = [m for m, _ in PANEL_DOC] + [m for _ in positions for m in PANEL_POS]
                    part.fail("after step %d %s answers differently for the edited document and for the same text opened fresh: %s vs %s" % (k, names[i], json.dumps(p1[i])[:200], json.dumps(p2[i])[:200]),
                              dict(sc, steps=steps[:k + 1])); break
                part.cnt("panel_comparisons")
            else:
                for l in labels: part.see(l)
            srv.close_doc(uri)
        except (ServerDied, Timeout, FrameError) as e:
            part.fail("server failed during the history: %s" % e, sc)
            if srv: srv.kill()
            srv = None
    if srv: srv.kill()
    return part


# ------------------------------------------------------------------------------------------------ witnesses outside the deciding sub-space
def replay_witnesses(ctx):
    """divergences outside the deciding sub-space: concrete committed witnesses, each replayed on every run"""
    ad = Adaptor()
    for f in ctx.open_findings():
        wpath = os.path.join(VERIF, f["witness"])
        with open(wpath) as fh: w = json.load(fh)
        still = 0
        for sc in w["scenarios"]:
            res = ad.call(op="history", text=sc["text"], steps=sc["steps"])
            ctx.count()
            if res.get("div") or res.get("update_panic"): still += 1
        if still: ctx.known(f["id"], "%s [%d of %d witnesses still diverge]" % (f["what"], still, len(w["scenarios"])))
        else: ctx.extra.setdefault("witnesses_no_longer_failing", []).append(f["id"])
    # repaired defects: their witnesses are regression tests, a divergence is a violation again
    for f in ctx.findings:
        if f.get("property") != "C01" or f.get("status") != "fixed" or not f.get("regression_witness"): continue
        with open(os.path.join(VERIF, f["regression_witness"])) as fh: w = json.load(fh)
        for sc in w["scenarios"]:
            kw = {"judge": sc["judge"]} if sc.get("judge") else {}
            res = ad.call(op="history", text=sc["text"], steps=sc["steps"], **kw)
            ctx.count(); ctx.extra["regression_witnesses_replayed"] = ctx.extra.get("regression_witnesses_replayed", 0) + 1
            if res.get("div") or res.get("update_panic") or res.get("fresh_panic"):
                d = res.get("div") or {}
                ctx.violation("the repaired defect %s (%s) is back: after step %s the updated document differs from a fresh analysis in %s" % (f["id"], f["commit"], d.get("step", res.get("step")), d.get("what")),
                              dict(sc, kind="history"))
    ad.close()


def run(ctx):
    adaptor_bin(); server_bin("rel")
    replay_witnesses(ctx)
    nhist = 200 if ctx.quick else 12000
    for p in pmap(worker_lib, [("%s/%d" % (ctx.seed, i), nhist, 20) for i in range(NCPU)]): ctx.merge(p)
    nt = 16 if ctx.quick else 700
    for p in pmap(worker_typing, [("%s/%d" % (ctx.seed, i), nt) for i in range(NCPU)]): ctx.merge(p)
    nd = 400 if ctx.quick else 20000
    for p in pmap(worker_damage, [("%s/%d" % (ctx.seed, i), nd) for i in range(NCPU)]): ctx.merge(p)
    nb = 150 if ctx.quick else 8000
    for p in pmap(worker_block, [("%s/%d" % (ctx.seed, i), nb) for i in range(NCPU)]): ctx.merge(p)
    nl = 16 if ctx.quick else 500
    for p in pmap(worker_lsp, [("%s/%d" % (ctx.seed, i), nl, 10) for i in range(NCPU)]): ctx.merge(p)
    c = ctx.extra.get("counters", {})
    ctx.extra["reuse_note"] = "nodes_reused = %s, nodes_reparsed = %s (hook H2; reported, not judged: a tree that always re-parses satisfies the property)" % (c.get("nodes_reused"), c.get("nodes_reparsed"))
    ctx.extra["sub_space"] = ("ALL STATES are compared. (1) Atomic edits, histories of 1-20 steps (1-4 changes per step, each relative to its predecessor) whose source and result are syntactically valid: "
                              "insert/delete/replace whole statements (any list position and depth), whole global/variable/parameter declarations, comment lines in leading positions and in arbitrary token gaps, "
                              "white space, literals, identifiers, whole expressions, typed characters in literals/identifiers, appends at the end, else branches, arguments, ref, operators, parentheses, blocks; "
                              "well-typed and ill-typed programs. (2) TYPING: the same kinds of edits delivered as keystrokes (ranges removed by selection, backspace or delete key; new text typed character "
                              "by character or pasted in chunks of up to 5 characters, with occasional typos): most intermediate texts are syntactically broken; every step is compared. "
                              "(3) DAMAGE: 1-4 single-token damages (delete / insert / replace a lexeme) of a valid program, half of the time repaired again in reverse order; every step is compared. "
                              "(4) BLOCK EDITING: 1-5 editor commands on runs of lines and spans (duplicate, delete, move in one or two notifications, comment out / in, cut and paste elsewhere, "
                              "paste a copied span at an arbitrary place, indent, join lines), half of the time undone in reverse order; every step is compared. "
                              "(5) the witnesses of the divergences that were repaired in the build phase (all of them in broken states) are replayed as regression tests.")
    ctx.rule = "see sub_space; every step compared; distinct_nontrivial = distinct (edit class / sub-class) labels occurring in histories that were compared to the end"
    ctx.assumptions = ["AnalyzedSource::new is the reference for AnalyzedSource::update (metamorphic oracle: batch mode of the same build)",
                       "broken states are reached by typing, by single-token damage and by line/block commands; other routes into broken text (pastes of foreign garbage) are driven by C02 for crashes only"]
    ctx.floor("evaluations", ctx.evaluations, 10000)
    ctx.floor("edit classes exercised", len([k for k in c if k.startswith("edit:")]), 15)
    ctx.floor("LSP panel comparisons", c.get("panel_comparisons", 0), 100)
    ctx.floor("keystroke steps", c.get("keystroke_steps", 0), 20000)
    ctx.floor("single-token damage steps", c.get("damage_steps", 0), 3000)
    ctx.floor("block-editing steps", c.get("block_steps", 0), 5000)


def replay(ctx, sc):
    part = Part()
    kw = {"judge": sc["judge"]} if sc.get("judge") else {}
    ad = Adaptor()
    judge_history(part, ad.call(op="history", text=sc["text"], steps=sc["steps"], **kw), sc, sc.get("labels", []) or ["?"] * (len(sc["steps"]) + 1))
    ctx.merge(part); ctx.see(1); ctx.see(2)
