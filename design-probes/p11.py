# C03 single-fault probe: take valid program tokens, apply one fault at token level, check diagnostics
from lsp import *
from splgen import *
import sys, collections, random, copy
N = int(sys.argv[1])
S = Server()
stat = collections.Counter(); ex = {}
def note(k, info):
    stat[k] += 1
    if k not in ex: ex[k] = info
def T(kind, text): return Tok(kind, text)
def seq(*parts):
    out = []
    for p in parts:
        if isinstance(p, Tok): out.append(p)
        elif isinstance(p, str):
            for w in p.split():
                out.append(Tok("kw" if w in KEYWORDS else "id" if (w[0].isalpha() or w[0] == "_") else "int" if w[0].isdigit() else "sym", w))
        else: out.extend(p)
    return out
for seed in range(N):
    rng = random.Random(seed)
    g = Gen(rng).program()
    toks = g.toks
    faults = []
    main = [p for p in g.procs if p.name == "main"][0]
    # insertion point: start of main's body statements
    body = main.body_first
    def ins(at, newtoks, expect_msg, culprit_idx_in_new=None, culprit_len=1):
        faults.append((at, newtoks, expect_msg, culprit_idx_in_new, culprit_len))
    ins(body, seq("undefvar := 1 ;"), "undefined variable `undefvar`", 0)
    ins(body, seq("undefproc ( ) ;"), "undefined procedure `undefproc`", 0, 4)
    ins(body, seq("main := 1 ;"), "`main` is not a variable", 0)
    ins(body, seq("printi ( ) ;"), "procedure `printi` called with too few arguments", 0, 4)
    ins(body, seq("printi ( 1 , 2 ) ;"), "procedure `printi` called with too many arguments", 0, 7)
    ins(body, seq("readi ( 1 ) ;"), "procedure `readi` argument `1` must be a variable", 2)
    ins(body, seq("if ( 1 ) ;"), "`if` test expression must be of type boolean", 2)
    ins(body, seq("while ( 1 + 2 ) ;"), "`while` test expression must be of type boolean", 2, 3)
    ins(body, seq("printi ( 1 < 2 ) ;"), "procedure `printi` argument `1` type mismatch", 2, 3)
    ins(len(toks), seq("type main = int ;"), "`main` is not a procedure", 1)
    ins(len(toks), seq("proc main ( ) { }"), "redeclaration of `main` as procedure", 1)
    ins(len(toks), seq("type undefT2 = undefT ;"), "undefined type `undefT`", 3)
    ins(len(toks), seq("type notT = main ;"), "`main` is not a type", 3)
    ins(len(toks), seq("proc parr ( a : array [ 2 ] of int ) { }"), "parameter `a` must be a reference parameter", 3)
    ins(len(toks), seq("proc pdup ( a : int , a : int ) { }"), "redeclaration of `a` as parameter", 7)
    ins(len(toks), seq("proc vdup ( a : int ) { var a : int ; }"), "redeclaration of `a` as variable", 9)
    if g.types: ins(len(toks), seq("type %s = int ;" % g.types[0].name), "redeclaration of `%s` as type" % g.types[0].name, 1)
    locs = main.locals
    ints = [v for v in locs if v.ty == INT]
    arrs = [v for v in locs if isinstance(v.ty, ArrT)]
    if ints:
        v = ints[0]
        ins(body, seq("%s [ 0 ] := 1 ;" % v.name), "illegal indexing a non-array", 0, 4)
        ins(body, seq("%s := 1 < 2 ;" % v.name), "assignment has different types", 0, 6)
        ins(body, seq("%s ( ) ;" % v.name), "call of non-procedure `%s`" % v.name, 0, 4)
        ins(body, seq("%s := ( 1 < 2 ) + 1 ;" % v.name), "expression combines different types", 2, 7)
        ins(body, seq("if ( ( 1 < 2 ) = ( 2 < 3 ) ) ;"), "comparison requires integer operands", 2, 11)
        ins(body, seq("%s := ( 1 < 2 ) + ( 1 < 2 ) ;" % v.name), "arithmetic operation requires integer operands", 2, 11)
    if arrs:
        a = arrs[0]
        ins(body, seq("%s := %s ;" % (a.name, a.name)), "assignment requires integer variable", 0, 4)
        if ints: ins(body, seq("%s [ 1 < 2 ] := 1 ;" % a.name) if isinstance(a.ty.base, IntT) else seq(";"), "illegal indexing with a non-integer" if isinstance(a.ty.base, IntT) else None, 2, 3)
    for (at, newtoks, msg, ci, cl) in faults:
        if msg is None: continue
        s2 = toks[:at] + newtoks + toks[at:]
        text = layout(s2, random.Random(seed))
        tb = text.encode()
        uri = "file:///f.spl"
        S.open(uri, text)
        d = S.diags(uri)
        msgs = [x["message"].strip() for x in d]
        kind = msg.split("`")[0].strip() + ("…" if "`" in msg else "")
        if msgs == [msg]:
            a = pos_of(tb, newtoks[ci].start); b = pos_of(tb, newtoks[ci + cl - 1].end)
            r = d[0]["range"]
            inside = (r["start"]["line"], r["start"]["character"]) >= a and (r["end"]["line"], r["end"]["character"]) <= b
            exact = (r["start"]["line"], r["start"]["character"]) == a and (r["end"]["line"], r["end"]["character"]) == b
            note(("ok " if exact else "RANGE-within " if inside else "BAD-RANGE ") + kind, (seed, r, a, b, text[newtoks[0].start - 20:newtoks[-1].end + 5]))
        else:
            note("BAD-MSGS " + kind, (seed, msgs, " ".join(t.text for t in newtoks)))
    # missing main: rename main decl... simple: skip
for k in sorted(stat): print(stat[k], k, str(ex[k])[:400] if not k.startswith("ok") else "")
