from splgen import *
import random
seed = 454
rng = random.Random(seed); g = Gen(rng).program()
t1 = layout(g.toks, random.Random(seed * 7 + 1))
i = t1.index("stmt note 64")
print(repr(t1[i-150:i+80]))
