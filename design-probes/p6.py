from lsp import *
from splgen import *
import sys, collections, re, random
from helpers import *
N = int(sys.argv[1])
S = Server()
cls = collections.defaultdict(lambda: [0, 0, None])
def tclass(t):
    if t is None: return "BOF/EOF"
    if t.kind in ("id", "int", "comment"): return t.kind
    return t.text
for seed in range(N):
    rng = random.Random(seed)
    g = Gen(rng, allow={"doc": False, "stmt_comments": False}).program()
    toks = g.toks
    for gap in range(len(toks) + 1):
        prev = toks[gap - 1] if gap > 0 else None
        nxt = toks[gap] if gap < len(toks) else None
        c = Tok("comment", "// GAPCOMMENT")
        seq = toks[:gap] + [c] + toks[gap:]
        text = layout(seq, random.Random(1), style="plain")
        uri = "file:///g.spl"
        try:
            S.open(uri, text)
            r = S.request("textDocument/formatting", {"textDocument": {"uri": uri}, "options": {"tabSize": 4, "insertSpaces": True}}).get("result")
        except (EOFError, TimeoutError) as e:
            S = Server(); key = (tclass(prev), tclass(nxt)); cls[key][1] += 1; cls[key][2] = "CRASH"; continue
        f = apply_edits(text, r) if r else text
        n = sum(1 for x in lex(f) if x == ("comment", "GAPCOMMENT"))
        nc_ok = [x for x in lex(f) if x[0] != "comment"] == [x for x in lex(text) if x[0] != "comment"]
        key = (tclass(prev), tclass(nxt))
        if n == 1 and nc_ok: cls[key][0] += 1
        else:
            cls[key][1] += 1
            if cls[key][2] is None: cls[key][2] = (n, nc_ok, text[max(0, c.start - 30): c.end + 30])
good = {k: v for k, v in cls.items() if v[1] == 0}
bad = {k: v for k, v in cls.items() if v[0] == 0}
mixed = {k: v for k, v in cls.items() if v[0] and v[1]}
print("classes", len(cls), "always-ok", len(good), "always-bad", len(bad), "mixed", len(mixed))
print("BAD:", sorted((k, v[1]) for k, v in bad.items()))
print("MIXED:")
for k, v in sorted(mixed.items()): print(" ", k, v)
