from lsp import *
import os
s = Server(binpath=os.environ.get("LSP_BIN"))
def d(text):
    s.open("file:///t.spl", text); return [(x["message"].strip(), x["range"]["start"], x["range"]["end"]) for x in s.diags("file:///t.spl")]
print(d("proc main() {}\nproc f(a: int) { a := 1; }\nproc f(b: int) { var c: int; c := b; }\n"))
print(d("proc f() {}\n"))
print(d("proc main(a: int) {}\n"))
print(d("type main = int;\nproc main() {}\n"))
print(d("proc main() { var a: array [2] of int; var b: array [2] of int; a := b; a[0] := b[1]; }\n"))
print(d("type A = array [2] of int;\nproc main() { var a: A; var b: A; a := b; f(a); }\nproc f(ref x: A) {}\n"))
print(d("proc main() { var x: int; x := 99999999999; x := 0x; x := 'a; }\n"))
print(d("proc main() { // c\n}"))
print(d("proc main() {}\n// trailing no newline"))
print(d(""))
print(d("proc main() { var i: int; i := -'a' * 0x10 / (3 - 2); }"))
