"""C04 — the syntax tree is the derivation the SPL grammar mandates.
Oracle: the generating derivation (harness/gen.py builds the derivation first and the tokens from it); for the exhaustive
operator shapes an independent precedence builder written from the grammar.  Observed at: parser::parse(lexer::lex(text))
through the adaptor's tree dump (absolute token ranges)."""
import itertools, random
from ..core import Adaptor, Part, pmap, NCPU
from .. import gen, layout
from ..gen import Node, Tok, sym, kw

STYLES = ["random", "compact", "spaced", "lines"]


def add_gap_comments(P, rng, every=False, p=.15):
    n = 0
    for t in list(P.index()):
        if t.kind == "comment": continue
        if every or rng.random() < p:
            for _ in range(rng.choice([1, 1, 1, 2, 3])):        # one or several comment lines in the same gap
                n += 1; c = Tok("comment", "// gap %d %s" % (n, rng.choice(["", "ü€", "x := 1;", "// again"]))); t.lead.append(c)
    if every or rng.random() < p:
        P.trail.append(Tok("comment", "// trailing %d" % n))
    P.index()


def compare(part, ad, P, text, what, scenario):
    exp = gen.expected_tree(P)
    res = ad.call(op="parse", text=text)
    part.ev()
    if "tree" not in res:
        part.fail("%s: parser did not return a tree: %r" % (what, res), scenario); return False
    got = res["tree"][1:]
    ntok = len(P.toks) + 1
    if res["ntokens"] != ntok:
        part.fail("%s: %d tokens lexed, generator wrote %d" % (what, res["ntokens"], ntok), scenario); return False
    root = res["tree"][0]
    diags = [(n[0], e) for n in res["tree"] for e in n[4]]
    if diags:
        part.fail("%s: syntax diagnostics on a syntactically valid program: %r" % (what, diags[:3]), scenario); return False
    if root[1] != 0 or root[2] != ntok - 1 - len(P.trail):
        pass  # the extent of the Program node itself is not part of the property
    for i, (g, x) in enumerate(zip(got, exp)):
        gg = [g[0], g[1], g[2], g[3]]
        if g[0] in ("TypeDeclaration", "ProcedureDeclaration", "Variable"): gg[3] = [d.rstrip("\r") for d in g[3]]
        if g[0] == "Parameter": gg[3] = [g[3][0], [d.rstrip("\r") for d in g[3][1]]]
        if gg != x:
            toks = P.toks
            part.fail("%s: node %d differs: parser %r, derivation %r; tokens there: %r" % (what, i, gg, x, [t.text for t in toks[min(g[1], x[1]):max(g[2], x[2])][:12]]), scenario)
            return False
    if len(got) != len(exp):
        part.fail("%s: parser produced %d nodes, derivation has %d" % (what, len(got), len(exp)), scenario); return False
    for n in got: part.add("node_kinds", n[0])
    return True


def worker_random(args):
    seed, n = args
    rng = random.Random("C04/%s" % seed)
    ad = Adaptor(); part = Part()
    for it in range(n):
        gs = rng.getrandbits(32)
        opts = dict(size=rng.choice([1, 2, 3, 5]), depth=rng.choice([1, 2, 3, 4]), edepth=rng.choice([1, 2, 3, 5]), typed=rng.random() < .5)
        for li in range(3):
            P = gen.generate(gs, **opts)
            lrng = random.Random("%s/%s/%d" % (seed, it, li))
            if li == 1: add_gap_comments(P, lrng, every=True)
            elif li == 2: add_gap_comments(P, lrng, p=.15)
            style = "random" if li else lrng.choice(STYLES)
            eol = lrng.choice(["\n", "\n", "\r\n"])
            text = layout.layout(P, lrng, style, eol, final=lrng.choice([None, "", eol]))
            sc = {"kind": "program", "text": text, "expected": gen.expected_tree(P), "ntokens": len(P.toks) + 1}
            ok = compare(part, ad, P, text, "generated program (layout %d)" % li, sc)
            if ok:
                part.see(hash(tuple(t.text for t in P.toks if t.kind != "comment")))
                if it == 0 and li == 1: part.sample({"part": "program with a comment in every gap", "text": text[:400], "nodes": len(gen.expected_tree(P))}, 1)
    ad.close()
    return part


# ------------------------------------------------------------------ exhaustive operator shapes
PREC = {"*": 2, "/": 2, "+": 1, "-": 1}


def operand(kind, neg):
    if kind == "v":
        t = Tok("id", "x", role="use"); n = Node("NamedVar", [t], name=t)
    else:
        t = Tok("int", "1", val=1); n = Node("IntLit", [t], tok=t, value=1)
    if neg: n = Node("Unary", [sym("-"), n], expr=n)
    return n


def fold(items, ops):
    """derivation of `items[0] ops[0] items[1] ...` under the SPL grammar: Comp := Add (cmp Add)?; Add := Mul ((+|-) Mul)*; Mul := Factor ((*|/) Factor)*"""
    cmp_at = [i for i, o in enumerate(ops) if o not in PREC]
    assert len(cmp_at) <= 1
    if cmp_at:
        k = cmp_at[0]
        l = fold(items[:k + 1], ops[:k]); r = fold(items[k + 1:], ops[k + 1:]); o = sym(ops[k])
        return Node("Binary", [l, o, r], op=ops[k], lhs=l, rhs=r)
    # multiplicative groups first
    terms = [items[0]]; addops = []
    for it, o in zip(items[1:], ops):
        if PREC[o] == 2:
            l = terms[-1]; s_ = sym(o); terms[-1] = Node("Binary", [l, s_, it], op=o, lhs=l, rhs=it)
        else:
            terms.append(it); addops.append(o)
    acc = terms[0]
    for t, o in zip(terms[1:], addops):
        s_ = sym(o); acc = Node("Binary", [acc, s_, t], op=o, lhs=acc, rhs=t)
    return acc


def shapes():
    """(operands kinds, negations, ops, paren group or None)"""
    out = []
    for n in (2, 3, 4):
        opsets = list(itertools.product("+-*/", repeat=n - 1))
        for ops in opsets:
            groups = [None] + [(i, j) for i in range(n) for j in range(i + 1, n) if not (i == 0 and j == n - 1)] + [(0, n - 1)]
            for g in groups:
                for negs in itertools.product([False, True], repeat=n):
                    if sum(negs) > 2: continue
                    out.append((n, ops, g, negs, None))
            # one comparison in any slot (top level) — a single non-associative comparison
            for k in range(n - 1):
                for c in ("<", ">=", "="):
                    o2 = list(ops); o2[k] = c
                    out.append((n, tuple(o2), None, (False,) * n, None))
    return out


def build_shape(sh):
    n, ops, g, negs, _ = sh
    items = [operand("v" if i % 2 == 0 else "i", negs[i]) for i in range(n)]
    ops = list(ops)
    if g is not None:
        i, j = g
        inner = fold(items[i:j + 1], ops[i:j])
        par = Node("Paren", [sym("("), inner, sym(")")], expr=inner)
        items = items[:i] + [par] + items[j + 1:]
        ops = ops[:i] + ops[j:]
    e = fold(items, ops)
    return e


def wrap_program(expr=None, stmt=None):
    P = gen.Program()
    d = gen.Decl("proc", "main")
    nt = Tok("id", "main", role="decl", bind=d); ident = Node("Ident", [nt], name=nt)
    if stmt is None:
        t = Tok("id", "x", role="use"); tv = Node("NamedVar", [t], name=t)
        stmt = Node("Assign", [tv, sym(":="), expr, sym(";")], target=tv, expr=expr)
    d.node = Node("ProcDecl", [kw("proc"), ident, sym("("), sym(")"), sym("{"), stmt, sym("}")], decl=d, name=ident, params=[], vars=[], stmts=[stmt])
    P.root.parts = [d.node]; P.procs = [d]
    P.index()
    return P


def dangling(k, j):
    """if (c) if (c) ... s else s ...: k nested unbraced ifs, j elses; every else binds to the nearest if"""
    def cond():
        t = Tok("id", "x", role="use"); l = Node("NamedVar", [t], name=t); i = Tok("int", "0", val=0); r_ = Node("IntLit", [i], tok=i, value=0)
        return Node("Binary", [l, sym("<"), r_], op="<", lhs=l, rhs=r_)
    def leaf(): return Node("Empty", [sym(";")])
    node = None
    for level in range(k):          # build from the innermost if outwards
        c = cond(); then = leaf() if node is None else node
        if level < j:
            e = leaf(); node = Node("If", [kw("if"), sym("("), c, sym(")"), then, kw("else"), e], cond=c, then=then, els=e)
        else:
            node = Node("If", [kw("if"), sym("("), c, sym(")"), then], cond=c, then=then, els=None)
    return node


def worker_shapes(args):
    shard, nshards, limit, seed = args
    rng = random.Random("C04/shapes/%s/%d" % (seed, shard))
    ad = Adaptor(); part = Part()
    sh = shapes()
    mine = [s for i, s in enumerate(sh) if i % nshards == shard]
    if limit is not None and len(mine) > limit:
        mine = rng.sample(mine, limit)
    for s_ in mine:
        e = build_shape(s_)
        P = wrap_program(expr=e)
        style = rng.choice(["compact", "spaced", "random"])
        text = layout.layout(P, rng, style)
        sc = {"kind": "program", "text": text, "expected": gen.expected_tree(P), "ntokens": len(P.toks) + 1}
        if compare(part, ad, P, text, "operator shape %r" % (s_[:4],), sc):
            part.see(("shape",) + s_[:4])
    if shard == 0:
        for k in range(1, 6):
            for j in range(0, k + 1):
                st = dangling(k, j)
                P = wrap_program(stmt=st)
                text = layout.layout(P, rng, "spaced")
                sc = {"kind": "program", "text": text, "expected": gen.expected_tree(P), "ntokens": len(P.toks) + 1}
                if compare(part, ad, P, text, "dangling else k=%d j=%d" % (k, j), sc): part.see(("dangling", k, j))
                if (k, j) == (3, 1): part.sample({"part": "dangling else", "text": text, "expected": gen.expected_tree(P)[2:8]}, 5)
    part.cnt("shapes_total", len(sh) if shard == 0 else 0)
    part.cnt("shapes_checked", len(mine))
    ad.close()
    return part


def run(ctx):
    n = 250 if ctx.quick else 8000
    for p in pmap(worker_random, [("%s/%d" % (ctx.seed, i), n) for i in range(NCPU)]): ctx.merge(p)
    limit = None
    for p in pmap(worker_shapes, [(i, NCPU, limit, ctx.seed) for i in range(NCPU)]): ctx.merge(p)
    c = ctx.extra.get("counters", {})
    ctx.extra["operator_shapes"] = {"total": c.get("shapes_total"), "checked": c.get("shapes_checked"), "complete": c.get("shapes_total") == c.get("shapes_checked"),
                                    "what": "2-4 operands, all +-*/ combinations, every parenthesised sub-range, unary minus on up to two operands, one comparison in any slot; dangling-else chains k<=5"}
    ctx.rule = ("random derivations (well-typed and syntax-only; statement depth <= 4, expression depth <= 5) each under three layouts, one with a comment in every token gap; "
                "operator shapes (exhaustive in thorough, sampled in quick); dangling-else chains; distinct_nontrivial = distinct non-comment token sequences / shapes whose tree matched")
    ctx.assumptions = ["the generator's productions are the SPL grammar (cross-read against editors/nvim/tree-sitter-spl/grammar.js)",
                       "node range rule: a node covers its tokens plus the comments directly before its first token; comments before a declaration are its doc"]
    ctx.floor("evaluations", ctx.evaluations, 1500)
    ctx.floor("node kinds seen", len(ctx.extra.get("_sets", {}).get("node_kinds", ())), 19)


def replay(ctx, sc):
    ad = Adaptor(); part = Part()
    res = ad.call(op="parse", text=sc["text"])
    part.ev()
    got = [[g[0], g[1], g[2], g[3]] for g in res.get("tree", [])[1:]]
    for g in got:
        if g[0] in ("TypeDeclaration", "ProcedureDeclaration", "Variable"): g[3] = [d.rstrip("\r") for d in g[3]]
        if g[0] == "Parameter": g[3] = [g[3][0], [d.rstrip("\r") for d in g[3][1]]]
    diags = [e for n in res.get("tree", []) for e in n[4]]
    if got != sc["expected"] or diags:
        part.fail("tree differs from the derivation (or diagnostics %r)" % diags[:2], sc)
    ctx.merge(part); ctx.see(1); ctx.see(2)
