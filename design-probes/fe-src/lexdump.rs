use spl_frontend::{lexer, tokens::*};
use std::io::Read;
fn main() {
    let mut buf = Vec::new(); std::io::stdin().read_to_end(&mut buf).unwrap();
    for text in buf.split(|b| *b == 0) {
        let text = std::str::from_utf8(text).unwrap();
        let toks = lexer::lex(text);
        let mut line = String::new();
        for t in &toks {
            let k = match &t.token_type {
                TokenType::Ident(s) => format!("id:{}", s), TokenType::Char(c) => format!("int:{}", *c as u32), TokenType::Int(IntResult::Int(i)) => format!("int:{}", i), TokenType::Int(IntResult::Err(_)) => "int:ERR".into(),
                TokenType::Hex(IntResult::Int(i)) => format!("int:{}", i), TokenType::Hex(IntResult::Err(_)) => "int:ERR".into(), TokenType::Comment(_) => "comment".into(), TokenType::Unknown(_) => "unk".into(), TokenType::Eof => "eof".into(),
                other => format!("{}", other),
            };
            line += &format!("{} {} {} {}\x01", k, t.range.start, t.range.end, t.errors.len());
        }
        println!("{}", line);
    }
}
