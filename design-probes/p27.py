# C16: class structure of completion correctness
from lsp import *
from splgen import *
import sys, collections, random
N = int(sys.argv[1])
S = Server()
cls = collections.defaultdict(lambda: [0, 0, None])
def tk(t): return t.text if t.kind in ("sym", "kw") else t.kind
for seed in range(N):
    rng = random.Random(seed)
    g = Gen(rng).program()
    # layout with exactly: one space between tokens, but we test placements by constructing the gap ourselves
    toks = g.toks
    allprocs = set(p.name for p in g.procs) | set(BUILTINS); alltypes = set(t.name for t in g.types) | {"int"}
    # choose some probe points
    points = []
    for (ti, proc) in g.stmt_starts:
        if 0 < ti < len(toks): points.append(("stmt", ti, proc))
    for p in g.procs:
        for v in p.params + p.locals:
            points.append(("type:" + v.kind, v.name_tok.idx + 2, p))
    rng.shuffle(points)
    for kind, ti, proc in points[:12]:
        for placement in ("touch-prev", "mid-ws", "touch-next", "own-line"):
            gapws = {"touch-prev": "  ", "mid-ws": "   ", "touch-next": "  ", "own-line": "\n\n\n"}[placement]
            # build text with plain layout but custom gap before token ti
            parts = []; pos = 0; cursor = None
            for i, t in enumerate(toks):
                if i:
                    ws = gapws if i == ti else ("\n" if toks[i-1].kind == "comment" else " ")
                    if i == ti and toks[i-1].kind == "comment": ws = "\n" + gapws
                    start_gap = pos
                    parts.append(ws); pos += len(ws.encode())
                    if i == ti:
                        gs = start_gap + (1 if toks[i-1].kind == "comment" else 0)
                        cursor = {"touch-prev": gs, "mid-ws": gs + 1, "touch-next": pos, "own-line": gs + 1 if gapws.startswith("\n") and toks[i-1].kind != "comment" else gs + 1}[placement]
                parts.append(t.text); pos += len(t.text.encode())
            text = "".join(parts); tb = text.encode()
            uri = "file:///k.spl"; S.open(uri, text)
            l, c = pos_of(tb, cursor)
            r = S.request("textDocument/completion", tdp(uri, l, c)).get("result")
            prev, nxt = toks[ti - 1], toks[ti]
            if kind == "stmt":
                exp_v = set(v.name for v in proc.params + proc.locals)
                ok = r is not None and set(i["label"] for i in r if i.get("kind") == 6) == exp_v and set(i["label"] for i in r if i.get("kind") == 3) == allprocs
            else:
                ok = r is not None and set(i["label"] for i in r if i.get("kind") == 22) == alltypes
            unbraced = prev.text in (")", "else") and kind == "stmt"
            key = (kind, placement, tk(prev) if kind == "stmt" else ":", "unbraced" if unbraced else "")
            cls[key][0 if ok else 1] += 1
            if not ok and cls[key][2] is None: cls[key][2] = (text[max(0, cursor - 25):cursor] + "‸" + text[cursor:cursor + 15], None if r is None else len(r))
good = {k: v for k, v in cls.items() if v[1] == 0}; bad = {k: v for k, v in cls.items() if v[0] == 0}; mixed = {k: v for k, v in cls.items() if v[0] and v[1]}
print("classes", len(cls), "always-ok", len(good), "always-bad", len(bad), "mixed", len(mixed))
for name, d in (("OK", good), ("BAD", bad), ("MIXED", mixed)):
    print(name)
    for k, v in sorted(d.items(), key=str): print("  ", k, v[:2], v[2] if name != "OK" else "")
