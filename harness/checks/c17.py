"""C17 — folding ranges match procedure extents.
Oracle: procedure extents known by construction (line of `proc`, line of the last token) + the LSP position model;
well-formedness on hostile documents."""
import random
from ..core import Part, pmap, NCPU, server_bin
from ..client import ServerDied, Timeout, FrameError
from .. import gen, feat, layout, lspmodel
from . import c02gen


def wellformed(part, res, text, sc):
    if not isinstance(res, list): part.fail("foldingRange answers %r" % (res,), sc); return False
    n = len(lspmodel.line_spans(text)); prev_end = -1
    for r in res:
        s, e = r.get("startLine"), r.get("endLine")
        if not isinstance(s, int) or not isinstance(e, int) or s < 0 or e < s or e >= n:
            part.fail("folding range %r is not well-formed (document has %d lines)" % (r, n), sc); return False
        if s < prev_end:
            part.fail("folding ranges overlap or are out of order: %r after a range ending at line %d" % (r, prev_end), sc); return False
        prev_end = e
    return True


def worker(args):
    seed, nprog, nhostile = args
    rng = random.Random("C17/%s" % seed)
    part = Part(); sess = feat.Session()
    for it in range(nprog):
        P, text, T = feat.program(rng, size=rng.choice([1, 2, 3, 5, 8]))
        sc = {"kind": "extents", "text": text}
        try:
            uri = sess.open(text, "c17_")
            res = sess.result("textDocument/foldingRange", {"textDocument": {"uri": uri}}); part.ev()
            sess.close(uri)
            if not wellformed(part, res, text, sc): continue
            want = [(T.pos(p.node.parts[0].start)[0], T.pos(p.rcurly.end)[0]) for p in sorted(P.procs, key=lambda p: p.node.a)]
            got = [(r["startLine"], r["endLine"]) for r in res]
            sc["expected"] = want
            if got != want: part.fail("folding ranges %r, procedure extents (line of `proc`, line of last token) are %r" % (got, want), sc)
            else:
                part.cnt("documents_with_expected_ranges")
                for p in P.procs: part.see((bool(p.doc_toks()), min(T.pos(p.rcurly.end)[0] - T.pos(p.node.parts[0].start)[0], 5)))
                if it == 0: part.sample({"part": "folding", "text": text[:200], "ranges": got}, 1)
        except (ServerDied, Timeout, FrameError) as e:
            feat.died(part, e, "foldingRange request", sc, sess)
    for it in range(nhostile):
        text = c02gen.hostile_text(rng)
        sc = {"kind": "wellformed", "text": text}
        try:
            uri = sess.open(text, "c17h_")
            res = sess.result("textDocument/foldingRange", {"textDocument": {"uri": uri}}); part.ev()
            sess.close(uri)
            if wellformed(part, res, text, sc): part.cnt("wellformed_hostile_documents")
        except (ServerDied, Timeout, FrameError) as e:
            feat.died(part, e, "foldingRange request on a hostile document", sc, sess)
    sess.kill()
    return part


def run(ctx):
    server_bin("rel")
    nprog, nh = (450, 500) if ctx.quick else (4000, 6000)
    for p in pmap(worker, [("%s/%d" % (ctx.seed, i), nprog, nh) for i in range(NCPU)]): ctx.merge(p)
    ctx.rule = ("valid generated programs in all layouts (doc comments, several procedures on one line, CRLF): ranges = one per procedure in source order from the line of `proc` to the line of "
                "its last token; hostile documents: start <= end, inside the document, ordered and not overlapping; distinct_nontrivial = distinct (has doc comments, line span) of procedures")
    ctx.assumptions = ["extents from the generator; line numbering from the LSP model (\\n, \\r\\n)"]
    ctx.floor("evaluations", ctx.evaluations, 1500)
    ctx.floor("documents with expected ranges", ctx.extra.get("counters", {}).get("documents_with_expected_ranges", 0), 500)


def replay(ctx, sc):
    part = Part(); sess = feat.Session()
    try:
        uri = sess.open(sc["text"], "c17r_")
        res = sess.result("textDocument/foldingRange", {"textDocument": {"uri": uri}}); part.ev()
        if wellformed(part, res, sc["text"], sc) and "expected" in sc:
            got = [[r["startLine"], r["endLine"]] for r in res]
            if got != [list(x) for x in sc["expected"]]: part.fail("folding ranges %r, expected %r" % (got, sc["expected"]), sc)
    except (ServerDied, Timeout, FrameError) as e:
        feat.died(part, e, "replay", sc, sess)
    sess.kill(); ctx.merge(part); ctx.see(1); ctx.see(2)
