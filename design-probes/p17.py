from lsp import *
from splgen import *
from helpers import *
import sys, collections, random
N = int(sys.argv[1])
S = Server()
cls = collections.defaultdict(lambda: [0, 0, None])
for seed in range(N):
    rng = random.Random(seed)
    g = Gen(rng, allow={"doc": False, "stmt_comments": False}).program()
    toks = g.toks
    for gap in range(len(toks) + 1):
        nxt = toks[gap] if gap < len(toks) else None
        prev = toks[gap - 1] if gap else None
        c = Tok("comment", "// GAPCOMMENT")
        seq = toks[:gap] + [c] + toks[gap:]
        text = layout(seq, random.Random(1), style="plain")
        uri = "file:///g.spl"
        S.open(uri, text)
        r = S.request("textDocument/formatting", {"textDocument": {"uri": uri}, "options": {"tabSize": 4, "insertSpaces": True}}).get("result")
        f = apply_edits(text, r) if r else text
        n = sum(1 for x in lex(f) if x == ("comment", "GAPCOMMENT"))
        key = (nxt.node[0], nxt.node[1] if nxt.node[0] not in ("expr",) else ("first" if nxt.node[1] == 0 else "inner"), nxt.node[2], nxt.text if nxt.kind in ("sym", "kw") else nxt.kind) if nxt is not None else ("EOF",)
        if n == 1: cls[key][0] += 1
        else:
            cls[key][1] += 1
            if cls[key][2] is None: cls[key][2] = text[max(0, c.start - 25): c.end + 25]
good = {k: v for k, v in cls.items() if v[1] == 0}; bad = {k: v for k, v in cls.items() if v[0] == 0}; mixed = {k: v for k, v in cls.items() if v[0] and v[1]}
print("classes", len(cls), "always-ok", len(good), "always-lost", len(bad), "mixed", len(mixed))
print("LOST:"); 
for k, v in sorted(bad.items(), key=str): print("  ", k, v[1])
print("MIXED:")
for k, v in sorted(mixed.items(), key=str): print("  ", k, v)
