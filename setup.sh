#!/bin/sh
# Builds the machinery from files on disk only (offline): the adaptor and the server variant used by the quick tier.
set -e
cd "$(dirname "$0")"
export CARGO_NET_OFFLINE=true
mkdir -p .work evidence
/usr/bin/python3 - <<'PY'
import sys
sys.path.insert(0, ".")
from harness import core
print("adaptor:", core.adaptor_bin())
print("server:", core.server_bin("rel"))
PY
