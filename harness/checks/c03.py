"""C03 — diagnostics are exactly what SPL prescribes, and point at the culprit.
Ground truth by construction: the generator emits only well-typed programs; every fault injector adds one violation of one
rule and knows the rule's message (literal templates, not imported from the implementation) and the offending construct.
Observed at: textDocument/publishDiagnostics of the built binary and AnalyzedSource::errors() through the adaptor."""
import random
from ..core import Adaptor, Part, pmap, NCPU, server_bin, adaptor_bin
from ..client import Server, ServerDied, Timeout, FrameError
from .. import gen, layout, lspmodel, feat
from ..gen import (mk_var, mk_int, mk_bin, mk_paren, mk_index, mk_assign, mk_call, mk_if, mk_while, mk_empty, mk_named_type, mk_array_type,
                   mk_typedecl, mk_param, mk_vardecl, mk_proc, INT, ArrT, BUILTINS, first_tok, last_tok)


# ------------------------------------------------------------------------------------------------ fault injectors
def _place(P, rng):
    proc, cont, depth = rng.choice(gen.stmt_lists(P))
    return proc, cont, rng.randint(0, len(cont.stmts)), depth


def _free_builtin(proc, names):
    for b in names:
        if b not in proc.names: return b
    return None


def _cmp(a=1, b=2): return mk_bin(mk_int(a), "<", mk_int(b))


def stmt_fault(build):
    """wrap a statement builder: build(P, rng, proc) -> (stmt, message, first node/token, last node/token, exact) or None"""
    def f(P, rng):
        proc, cont, idx, depth = _place(P, rng)
        r = build(P, rng, proc)
        if r is None: return None
        stmt, msg, a, b, exact = r
        gen.insert_stmt(cont, idx, stmt)
        return dict(msg=msg, first=first_tok(a), last=last_tok(b), exact=exact, where="proc %s depth %d index %d" % (proc.name, depth, idx))
    return f


def ints_of(proc): return [v for v in proc.params + proc.locals if v.ty == INT]
def arrs_of(proc): return [v for v in proc.params + proc.locals if isinstance(v.ty, ArrT)]


def F_undefined_variable(P, rng, proc):
    v = mk_var("undefvar"); s = mk_assign(v, mk_int(1)); return s, "undefined variable `undefvar`", v, v, True

def F_undefined_procedure(P, rng, proc):
    s = mk_call("undefproc", []); return s, "undefined procedure `undefproc`", s, s, False

def F_not_a_variable(P, rng, proc):
    cands = [d.name for d in P.types + P.procs if d.name not in proc.names]
    if not cands: return None
    n = rng.choice(cands); v = mk_var(n); s = mk_assign(v, mk_int(1)); return s, "`%s` is not a variable" % n, v, v, True

def F_too_few(P, rng, proc):
    b = _free_builtin(proc, ["printi", "printc", "setPixel"])
    if b is None: return None
    s = mk_call(b, []); return s, "procedure `%s` called with too few arguments" % b, s, s, False

def F_too_many(P, rng, proc):
    b = _free_builtin(proc, ["printi", "exit", "printc"])
    if b is None: return None
    n = len(BUILTINS[b]) + 1
    s = mk_call(b, [mk_int(i) for i in range(n)]); return s, "procedure `%s` called with too many arguments" % b, s, s, False

def F_arg_must_be_variable(P, rng, proc):
    b = _free_builtin(proc, ["readi", "readc", "time"])
    if b is None: return None
    a = mk_bin(mk_int(1), "+", mk_int(2)) if rng.random() < .5 else mk_int(1)
    s = mk_call(b, [a]); return s, "procedure `%s` argument `1` must be a variable" % b, a, a, False

def F_if_not_boolean(P, rng, proc):
    c = mk_int(1) if rng.random() < .5 else mk_bin(mk_int(1), "*", mk_int(2))
    s = mk_if(c, mk_empty()); return s, "`if` test expression must be of type boolean", c, c, False

def F_while_not_boolean(P, rng, proc):
    c = mk_bin(mk_int(1), "+", mk_int(2)); s = mk_while(c, mk_empty()); return s, "`while` test expression must be of type boolean", c, c, False

def F_arg_type_mismatch(P, rng, proc):
    b = _free_builtin(proc, ["printi", "printc", "clearAll"])
    if b is None: return None
    a = _cmp(); s = mk_call(b, [a]); return s, "procedure `%s` argument `1` type mismatch" % b, a, a, False

def F_arg_type_mismatch_array(P, rng, proc):
    """an array variable passed where an int is expected (argument 2 of setPixel)"""
    arrs = arrs_of(proc)
    if not arrs or "setPixel" in proc.names: return None
    a = mk_var(rng.choice(arrs).name); s = mk_call("setPixel", [mk_int(1), a, mk_int(3)])
    return s, "procedure `setPixel` argument `2` type mismatch", a, a, False

def F_index_non_array(P, rng, proc):
    ints = ints_of(proc)
    if not ints: return None
    v = mk_index(mk_var(rng.choice(ints).name), mk_int(0)); s = mk_assign(v, mk_int(1)); return s, "illegal indexing a non-array", v, v, False

def F_assign_different_types(P, rng, proc):
    ints = ints_of(proc)
    if not ints: return None
    s = mk_assign(mk_var(rng.choice(ints).name), _cmp()); return s, "assignment has different types", s, s, False

def F_call_non_procedure(P, rng, proc):
    vs = proc.params + proc.locals
    if not vs: return None
    n = rng.choice(vs).name; s = mk_call(n, []); return s, "call of non-procedure `%s`" % n, s, s, False

def F_call_type(P, rng, proc):
    ts = [t for t in P.types if t.name not in proc.names]
    if not ts: return None
    n = rng.choice(ts).name; s = mk_call(n, []); return s, "call of non-procedure `%s`" % n, s, s, False

def F_operator_different_types(P, rng, proc):
    ints = ints_of(proc)
    if not ints: return None
    e = mk_bin(mk_paren(_cmp()), "+", mk_int(1)); s = mk_assign(mk_var(rng.choice(ints).name), e); return s, "expression combines different types", e, e, False

def F_comparison_non_integer(P, rng, proc):
    e = mk_bin(mk_paren(_cmp()), rng.choice(["=", "#", "<"]), mk_paren(_cmp(2, 3))); s = mk_if(e, mk_empty()); return s, "comparison requires integer operands", e, e, False

def F_arithmetic_non_integer(P, rng, proc):
    ints = ints_of(proc)
    if not ints: return None
    e = mk_bin(mk_paren(_cmp()), rng.choice("+-*/"), mk_paren(_cmp())); s = mk_assign(mk_var(rng.choice(ints).name), e)
    return s, "arithmetic operation requires integer operands", e, e, False

def F_assign_requires_int(P, rng, proc):
    arrs = arrs_of(proc)
    if not arrs: return None
    n = rng.choice(arrs).name; s = mk_assign(mk_var(n), mk_var(n)); return s, "assignment requires integer variable", s, s, False

def F_index_non_integer(P, rng, proc):
    arrs = [a for a in arrs_of(proc) if a.ty.base == INT]
    if not arrs: return None
    ix = _cmp(); v = mk_index(mk_var(rng.choice(arrs).name), ix); s = mk_assign(v, mk_int(1)); return s, "illegal indexing with a non-integer", ix, ix, False


def _matrix_setup(P, rng, proc, nested=True):
    """adds (valid) helper declarations: a nested array type, a procedure taking it by reference, and a local of that type in `proc`"""
    k = rng.randint(100, 999)
    tname, pname, vname = "Mat%d" % k, "takesMat%d" % k, "mat%d" % k
    # (levels of equal size are the hard case: the types of a matrix and of its row then differ in nothing but their base type)
    a, b = rng.choice([(3, 4), (3, 3), (2, 2), (1, 1), (4, 2), (7, 7)])
    inner = mk_array_type(b, mk_array_type(b, mk_named_type("int"))) if rng.random() < .3 else mk_array_type(b, mk_named_type("int"))
    te = mk_array_type(a, inner) if nested else mk_array_type(3, mk_named_type("int"))
    td = mk_typedecl(tname, te)
    callee = mk_proc(pname, [mk_param("m", mk_named_type(tname), True)])
    # the type must be declared before its uses: put both in front of everything
    gen.insert_decl(P, 0, callee); gen.insert_decl(P, 0, td)
    v = mk_vardecl(vname, mk_named_type(tname), None, proc)
    proc.node.vars.append(v.node); proc.locals.append(v); proc.names.add(vname); gen.rebuild_proc(proc)
    return tname, pname, vname


def F_arg_array_row_for_matrix(P, rng, proc):
    """a row of a nested array passed where the whole array type is expected: different types although one declaration created both"""
    tname, pname, vname = _matrix_setup(P, rng, proc)
    a = mk_index(mk_var(vname), mk_int(0)); s = mk_call(pname, [a])
    return s, "procedure `%s` argument `1` type mismatch" % pname, a, a, False

def F_assign_matrix_to_row(P, rng, proc):
    tname, pname, vname = _matrix_setup(P, rng, proc)
    s = mk_assign(mk_index(mk_var(vname), mk_int(1)), mk_var(vname)); return s, "assignment has different types", s, s, False

def F_arg_other_array_type(P, rng, proc):
    """an array of another (anonymous) array type with a different size passed by reference"""
    tname, pname, vname = _matrix_setup(P, rng, proc, nested=False)
    other = "m"                     # same name as the callee's parameter: types are still different (other size, other declaration)
    if other in proc.names: return None
    v = mk_vardecl(other, mk_array_type(5, mk_named_type("int")), None, proc)
    proc.node.vars.append(v.node); proc.locals.append(v); proc.names.add(other); gen.rebuild_proc(proc)
    a = mk_var(other); s = mk_call(pname, [a]); return s, "procedure `%s` argument `1` type mismatch" % pname, a, a, False

def F_compare_arrays(P, rng, proc):
    tname, pname, vname = _matrix_setup(P, rng, proc, nested=False)
    e = mk_bin(mk_var(vname), rng.choice(["=", "<"]), mk_var(vname)); s = mk_if(e, mk_empty()); return s, "comparison requires integer operands", e, e, False


def decl_fault(build):
    """build(P, rng) -> (decl, min index, message, culprit token, ...)"""
    def f(P, rng):
        r = build(P, rng)
        if r is None: return None
        d, lo, msg, tok = r
        idx = rng.randint(lo, len(P.root.parts))
        gen.insert_decl(P, idx, d)
        return dict(msg=msg, first=tok, last=tok, exact=True, where="declaration index %d" % idx)
    return f


def _index_of(P, d): return P.root.parts.index(d.node)

def D_main_not_a_procedure(P, rng):
    d = mk_typedecl("main", mk_named_type("int")); return d, 0, "`main` is not a procedure", d.name_tok

def D_redeclaration_as_procedure(P, rng):
    """a second declaration of an existing procedure; its body uses its own locals (they must not be reported)"""
    v = mk_vardecl("own", mk_named_type("int"), INT)
    body = [mk_assign(mk_var("own"), mk_int(1))] if rng.random() < .7 else []
    if rng.random() < .35:
        # ... or of a predefined procedure, which may then stand anywhere, also in front of everything else
        name = rng.choice(["printi", "printc", "readi", "readc", "exit", "time", "clearAll", "setPixel", "drawLine", "drawCircle"])
        d = mk_proc(name, [], [v] if body else [], body)
        return d, 0, "redeclaration of `%s` as procedure" % name, d.name_tok
    orig = rng.choice(P.procs + P.types)
    d = mk_proc(orig.name, [], [v] if body else [], body)
    return d, _index_of(P, orig) + 1, "redeclaration of `%s` as procedure" % orig.name, d.name_tok

def D_redeclaration_as_type(P, rng):
    orig = rng.choice(P.procs + P.types)
    if orig.name == "main": return None
    d = mk_typedecl(orig.name, mk_named_type("int")); return d, _index_of(P, orig) + 1, "redeclaration of `%s` as type" % orig.name, d.name_tok

def D_undefined_type(P, rng):
    te = mk_named_type("undefT"); tok = te.name
    if rng.random() < .5: te = mk_array_type(3, te)
    d = mk_typedecl("undefT2", te); return d, 0, "undefined type `undefT`", tok

def D_not_a_type(P, rng):
    orig = rng.choice(P.procs)
    te = mk_named_type(orig.name); d = mk_typedecl("notT", te); return d, _index_of(P, orig) + 1, "`%s` is not a type" % orig.name, te.name

def D_must_be_ref(P, rng):
    p = mk_param("a", mk_array_type(2, mk_named_type("int"))); d = mk_proc("parr", [p]); return d, 0, "parameter `a` must be a reference parameter", p.name_tok

def D_redeclaration_as_parameter(P, rng):
    p1 = mk_param("a", mk_named_type("int"), ty=INT); p2 = mk_param("a", mk_named_type("int"), rng.random() < .5, ty=INT)
    d = mk_proc("pdup", [p1, p2]); return d, 0, "redeclaration of `a` as parameter", p2.name_tok

def D_redeclaration_as_variable(P, rng):
    if rng.random() < .5:
        p = mk_param("a", mk_named_type("int"), ty=INT); v = mk_vardecl("a", mk_named_type("int"), INT); d = mk_proc("vdup", [p], [v])
    else:
        v0 = mk_vardecl("a", mk_named_type("int"), INT); v = mk_vardecl("a", mk_named_type("int"), INT); d = mk_proc("vdup", [], [v0, v])
    return d, 0, "redeclaration of `a` as variable", v.name_tok


def X_main_with_parameters(P, rng):
    m = [p for p in P.procs if p.name == "main"][0]
    p = mk_param("a", mk_named_type("int"), rng.random() < .3, ty=INT, proc=m)
    if "a" in m.names or any(c.callee is m for c in P.calls): return None   # calls of main would become wrong too
    m.params.append(p); m.names.add("a"); gen.rebuild_proc(m)
    return dict(msg="procedure `main` must not have any parameters", first=m.name_tok, last=m.name_tok, exact=True, where="main")


def X_main_missing(P, rng):
    """the main-procedure rule itself: a program whose entry procedure has another name"""
    m = [p for p in P.procs if p.name == "main"][0]
    for t in P.index():
        if t.kind == "id" and t.bind is m: t.text = "mian"
    m.name = "mian"
    return dict(msg="procedure `main` is missing", first=None, last=None, exact=False, where="program")


SEMANTIC = [F_undefined_variable, F_undefined_procedure, F_not_a_variable, F_too_few, F_too_many, F_arg_must_be_variable, F_if_not_boolean, F_while_not_boolean,
            F_arg_type_mismatch, F_arg_type_mismatch_array, F_index_non_array, F_assign_different_types, F_call_non_procedure, F_call_type, F_operator_different_types,
            F_comparison_non_integer, F_arithmetic_non_integer, F_assign_requires_int, F_index_non_integer,
            F_arg_array_row_for_matrix, F_assign_matrix_to_row, F_arg_other_array_type, F_compare_arrays]
BUILD = [D_main_not_a_procedure, D_redeclaration_as_procedure, D_redeclaration_as_type, D_undefined_type, D_not_a_type, D_must_be_ref, D_redeclaration_as_parameter, D_redeclaration_as_variable]
FAULTS = [(f.__name__[2:], stmt_fault(f)) for f in SEMANTIC] + [(f.__name__[2:], decl_fault(f)) for f in BUILD] + \
         [("main_with_parameters", X_main_with_parameters), ("main_missing", X_main_missing)]


# ---- missing-token syntax faults: delete one token whose absence leaves every declaration in place
def syntax_sites(P):
    """(token to delete, expected message, family)"""
    out = []
    for n in gen.walk_nodes(P.root):
        k = n.kind; parts = n.parts
        if k in ("Assign", "Call"): out.append((parts[-1], "missing trailing `;`", k + ".;"))
        if k == "Call": out.append((n.rparen, "missing closing `)`", "Call.)"))
        if k in ("If", "While"):
            out.append((parts[1], "missing opening `(`", k + ".(")); out.append((parts[3], "missing closing `)`", k + ".)"))
        if k == "ArrayAccess": out.append((parts[3], "missing closing `]`", "ArrayAccess.]"))
        if k == "TypeDecl":
            out.append((parts[2], "expected `=`", "TypeDecl.=")); out.append((parts[4], "missing trailing `;`", "TypeDecl.;"))
        if k == "ArrayType":
            out.append((parts[1], "expected `[`", "ArrayType.[")); out.append((parts[3], "missing closing `]`", "ArrayType.]")); out.append((parts[4], "expected `of`", "ArrayType.of"))
        if k == "VarDecl":
            out.append((parts[2], "expected `:`", "VarDecl.:")); out.append((parts[4], "missing trailing `;`", "VarDecl.;"))
        if k == "Param":
            colon = [p for p in parts if isinstance(p, gen.Tok) and p.text == ":"][0]
            out.append((colon, "expected `:`", "Param.:"))
        if k == "ProcDecl":
            d = n.decl
            out.append((d.lparen, "missing opening `(`", "ProcDecl.(")); out.append((d.rparen, "missing closing `)`", "ProcDecl.)"))
            out.append((d.lcurly, "missing opening `{`", "ProcDecl.{")); out.append((d.rcurly, "missing closing `}`", "ProcDecl.}"))
    # keep only deletions that leave exactly the named rule violated
    toks = P.toks; keep = []
    def nxt(t):
        for u in toks[t.idx + 1:]:
            if u.kind != "comment": return u
        return None
    for tok, msg, fam in out:
        n = nxt(tok)
        if n is not None and n.text == tok.text: continue     # the next token would take its place (`;` of an empty statement, `{` of a block ...)
        if fam in ("If.(", "While.(") and n is not None and n.text == "(": continue  # `if (a) < b)`: the condition's own parenthesis would take its place
        if fam == "ArrayAccess.]" and (n is None or n.text not in (":=", ";", ")", ",")): continue  # an operator would continue the index expression
        keep.append((tok, msg, fam))
    return keep


# ------------------------------------------------------------------------------------------------ observation
class Obs:
    def __init__(s):
        s.srv = None; s.ad = Adaptor(); s.n = 0

    def server(s):
        if s.srv is None or not s.srv.alive(): s.srv = Server(server_bin("rel"))
        return s.srv

    def diagnostics(s, text):
        """(diagnostics over LSP, errors() over the adaptor) — both as (message, (sl, sc, el, ec))"""
        s.n += 1
        uri = "file:///c03/doc%d.spl" % s.n
        srv = s.server()
        srv.drop_notes()
        import random as _random
        r = _random.Random("c03-neighbour/%d/%d" % (len(text), s.n)); nb = None
        if r.random() < .2:
            # a neighbour of the same length (another line structure or one name exchanged) is open and analysed right before:
            # whatever the server keeps per process must not show in this document's diagnostics or their positions
            nb = uri + ".neighbour"
            srv.open(nb, feat.neighbour_text(text, r, r.choice(["same_length_layout", "same_length_layout", "same_length_name", "same_text"]), None)); feat._arr("with_an_open_neighbour")
        feat.arrive(srv, uri, text, s.n)        # part of the documents are reached by an edit history
        d = srv.diags(uri)
        srv.close_doc(uri)
        if nb: srv.close_doc(nb)
        lsp = None if d is None else [(x["message"].strip(), x["range"]) for x in d]
        res = s.ad.call(op="analyze", text=text)
        if "errors" in res:
            T = layout.Text(text)
            api = [(e[2], T.rng(e[0], e[1])) for e in res["errors"]]
        else:
            api = res
        return lsp, api

    def close(s):
        if s.srv: s.srv.kill()
        s.ad.close()


def rkey(r): return (r["start"]["line"], r["start"]["character"], r["end"]["line"], r["end"]["character"])


def judge(part, obs, text, expect, what, sc):
    """expect: None (no diagnostic at all) or dict(msg, lo, hi, exact) with byte offsets of the offending construct"""
    try:
        lsp, api = obs.diagnostics(text)
    except (ServerDied, Timeout, FrameError) as e:
        part.fail("%s: server failed while publishing diagnostics: %s" % (what, e), sc); obs.srv = None; return False
    part.ev()
    if isinstance(api, dict):
        part.fail("%s: analysis failed in process: %r" % (what, api), sc); return False
    if lsp is None:
        part.fail("%s: no publishDiagnostics notification for the opened document" % what, sc); return False
    if [(m, rkey(r)) for m, r in lsp] != [(m, rkey(r)) for m, r in api]:
        part.fail("%s: published diagnostics %r differ from AnalyzedSource::errors() %r" % (what, lsp[:3], api[:3]), sc); return False
    for m, r in lsp:
        if not lspmodel.range_inside_document(r, text):
            part.fail("%s: published range %r lies outside the document" % (what, r), sc); return False
    if expect is None:
        if lsp:
            part.fail("%s: valid program got diagnostics %r" % (what, lsp[:3]), sc); return False
        return True
    msgs = [m for m, r in lsp]
    if msgs != [expect["msg"]]:
        part.fail("%s: expected exactly [%r], got %r" % (what, expect["msg"], msgs[:4]), sc); return False
    if expect.get("lo") is not None:
        T = layout.Text(text)
        lo, hi = T.pos(expect["lo"]), T.pos(expect["hi"])
        r = rkey(lsp[0][1]); a, b = (r[0], r[1]), (r[2], r[3])
        if expect["exact"]:
            ok = a == lo and b == hi
        else:
            ok = lo <= a <= b <= hi
        if not ok:
            part.fail("%s: diagnostic %r at %r, offending construct is %s %r..%r" % (what, expect["msg"], r, "exactly" if expect["exact"] else "within", lo, hi), sc); return False
    return True


def worker(args):
    seed, nprog, nfault, nsyntax = args
    rng = random.Random("C03/%s" % seed)
    part = Part(); obs = Obs()
    for it in range(nprog):
        gs = rng.getrandbits(32)
        opts = dict(size=rng.choice([1, 2, 3, 4, 6]), depth=rng.choice([1, 2, 3, 4]), edepth=rng.choice([1, 2, 3]))
        lseed = rng.getrandbits(32)
        def lay(P, final=None):
            lr = random.Random(lseed)
            eol = lr.choice(["\n", "\n", "\r\n"])
            return layout.layout(P, lr, lr.choice(["random", "random", "spaced", "compact"]), eol, final=lr.choice([None, "", eol]) if final is None else final)
        P = gen.generate(gs, **opts)
        text = lay(P)
        sc = {"kind": "valid", "text": text}
        if judge(part, obs, text, None, "valid program", sc):
            part.see(("valid", hash(text)))
            part.cnt("valid_programs")
            if it == 0: part.sample({"part": "valid program, no diagnostics", "text": text[:300]}, 1)
        else:
            continue
        for name, f in rng.sample(FAULTS, min(nfault, len(FAULTS))):
            P = gen.generate(gs, **opts)
            frng = random.Random("%s/%s" % (gs, name))
            r = f(P, frng)
            if r is None: part.cnt("fault_not_applicable"); continue
            text = lay(P)
            if r["first"] is not None:
                lo = r["first"].lead[0].start if (r["first"].lead and not r["exact"]) else r["first"].start
                exp = dict(msg=r["msg"], lo=lo, hi=r["last"].end, exact=r["exact"])
            else:
                exp = dict(msg=r["msg"], lo=None)
            sc = {"kind": "fault", "fault": name, "text": text, "expect": exp}
            if judge(part, obs, text, exp, "fault %s (%s)" % (name, r["where"]), sc):
                part.see(("fault", name, r["where"].split(" index")[0])); part.add("fault_kinds", name)
                if it == 0: part.sample({"part": "single fault", "fault": name, "where": r["where"], "expect": exp, "text": text[max(0, (exp.get("lo") or 0) - 40):(exp.get("hi") or 0) + 20]}, 2)
        # missing-token syntax faults
        P = gen.generate(gs, **opts)
        lay(P)
        sites = syntax_sites(P)
        for tok, msg, fam in rng.sample(sites, min(nsyntax, len(sites))):
            toks = P.toks
            i = tok.idx
            prev = [t for t in toks[:i] if t.kind != "comment"][-1]
            nxt = [t for t in toks[i + 1:] if t.kind != "comment"]
            pre_save = None
            kept = toks[:i] + toks[i + 1:]
            # the comments written before the deleted token stay (they are in the list as separate tokens)
            if i + 1 < len(toks) and layout.needs_sep(prev, toks[i + 1]) and not (toks[i + 1].pre):
                pre_save = toks[i + 1].pre; toks[i + 1].pre = " "
            text = layout.render(kept, final="")
            lo = prev.start; hi = nxt[0].end if nxt else len(text.encode())
            if pre_save is not None: toks[i + 1].pre = pre_save
            exp = dict(msg=msg, lo=lo, hi=hi, exact=False)
            sc = {"kind": "fault", "fault": "missing " + fam, "text": text, "expect": exp}
            if judge(part, obs, text, exp, "missing token %s" % fam, sc):
                part.see(("syntax", fam)); part.add("syntax_fault_families", fam)
            layout.render(toks)   # restore offsets
    obs.close()
    feat.report(part)
    return part


def run(ctx):
    nprog = 80 if ctx.quick else 2500
    server_bin("rel"); adaptor_bin()
    for p in pmap(worker, [("%s/%d" % (ctx.seed, i), nprog, 12 if ctx.quick else 29, 6 if ctx.quick else 12) for i in range(NCPU)]): ctx.merge(p)
    ctx.rule = ("well-typed generated programs (1-6+ declarations in any order, nested arrays, reference parameters, nested control flow, random layouts, CRLF, doc comments) must get "
                "no diagnostic; single-fault variants (27 build/semantic message kinds at any statement-list position and depth / any declaration index, plus 22 missing-token families) "
                "must get exactly the rule's message on the offending construct; distinct_nontrivial = distinct (fault kind, placement) pairs and distinct valid texts")
    ctx.assumptions = ["message templates and offending constructs are written from the SPL rules (harness/checks/c03.py), not imported from error.rs",
                       "missing-token faults are restricted to tokens whose absence leaves every declaration in place (no cascade is prescribed by SPL)"]
    ctx.extra["fault_kinds_total"] = len(FAULTS)
    ctx.floor("evaluations", ctx.evaluations, 1500)
    ctx.floor("fault kinds exercised", len(ctx.extra.get("_sets", {}).get("fault_kinds", ())), 26)
    ctx.floor("syntax fault families exercised", len(ctx.extra.get("_sets", {}).get("syntax_fault_families", ())), 15)


def replay(ctx, sc):
    part = Part(); obs = Obs()
    judge(part, obs, sc["text"], sc.get("expect") if sc["kind"] == "fault" else None, "replay", sc)
    obs.close(); ctx.merge(part); ctx.see(1); ctx.see(2)
