"""C06 — tokenisation is lossless and follows the SPL lexical grammar.
Oracle: (a) tiling predicate over the token ranges and the text; (b) the reference lexer (harness/reflex.py).
Observed at: spl_frontend::lexer::lex through the adaptor."""
import itertools
from ..core import Adaptor, Part, pmap, NCPU
from .. import reflex

WS = " \t\r\n"
TILING_ALPHABET = ["a", "i", "f", "0", "x", "9", "'", "/", "\n", " ", "<", "=", ":", "é", "\\", "n", "\r", "\t", "_", "(", "#",
                   "ı", "ł", "€", "😀", "-", "*", ";", "\"", "@", "$", "\x00", " ", " ", "F", "w", "h", "l", "e", "[", "}", ",", "+", ">",
                   "\x0b", "\x0c", "\x85", "\xa0", "\u2028", "\u3000", "\ufeff"]       # white space for Unicode but not for SPL; byte order mark
EXH_ALPHABET = ["a", "f", "0", "x", "1", "'", "/", "\n", " ", "<", "=", ":", "é", "\\"]

KEYWORDS = ["if", "else", "while", "array", "of", "proc", "ref", "type", "var"]
NEAR = ["ifx", "proce", "whil", "_if", "if_", "if0", "elsee", "Proc", "IF", "types", "vars", "o", "off", "int", "main", "x", "y1", "_", "__a9", "aB_c"]
SYMS = ["(", ")", "[", "]", "{", "}", "=", "#", "<", "<=", ">", ">=", ":=", ":", ",", ";", "+", "-", "*", "/"]
INTS = ["0", "1", "007", "12", "4294967295", "4294967296", "99999999999999999999", "000"]
HEXS = ["0x0", "0xff", "0xFF", "0x1F", "0xFFFFFFFF", "0x100000000", "0x0000000A", "0xabcdef"]
CHARS = ["'a'", "'''", "'\\'", "'\\n'", "' '", "'0'", "'/'", "'\t'"]
COMMENT_BODIES = ["", " c", " näme ünicode", " €uro 😀", " // nested", " if (x) {", "\t tab", " trailing  ", "x:=1;", " 'a", " 0x"]
SEPS = ["", " ", "  ", "\t", "\n", "\r\n", " \n "]


def tiling_failures(text, toks):
    """toks: [[kind, value, start, end, errs], ...] as returned by the implementation"""
    b = text.encode()
    out = []
    if not toks or toks[-1][0] != "eof": return ["last token is not EOF"]
    if sum(1 for t in toks if t[0] == "eof") != 1: out.append("not exactly one EOF token")
    if toks[-1][2] != len(b) or toks[-1][3] != len(b): out.append("EOF token at %s..%s, text has %d bytes" % (toks[-1][2], toks[-1][3], len(b)))
    pos = 0
    for i, t in enumerate(toks):
        k, v, a, e = t[0], t[1], t[2], t[3]
        if a < pos: out.append("token %d (%s) at %d..%d overlaps or precedes the previous token ending at %d" % (i, k, a, e, pos)); break
        if e < a or (e == a and k != "eof"): out.append("token %d (%s) has an empty or inverted range %d..%d" % (i, k, a, e)); break
        if e > len(b): out.append("token %d (%s) range %d..%d beyond the text" % (i, k, a, e)); break
        for off in (a, e):
            if off < len(b) and (b[off] & 0xC0) == 0x80: out.append("token %d (%s) range %d..%d not on a character boundary" % (i, k, a, e))
        gap = b[pos:a]
        if gap.strip(b" \t\r\n"): out.append("gap %d..%d before token %d contains non-white-space %r" % (pos, a, i, gap[:20]))
        pos = e
    return out


def norm_impl(toks):
    """implementation tokens in the vocabulary of the reference lexer; lexical errors become a flag"""
    out = []
    for k, v, a, e, errs in toks:
        out.append((k, v, a, e, bool(errs)))
    return out


def norm_ref(toks):
    out = []
    for k, v, a, e in toks:
        if k == "char!": out.append(("char", v, a, e, True))
        elif k in ("int", "hex") and v is None: out.append((k, None, a, e, True))
        else: out.append((k, v, a, e, False))
    return out


def lexically_valid(ref):
    return not any(k in ("unknown", "char!") or (k == "hex" and e - a == 2) for k, v, a, e in ref)


def conform_failures(text, toks):
    ref = reflex.lex(text)
    if not lexically_valid(ref): return None
    got = norm_impl(toks); exp = norm_ref(ref)
    if got == exp: return []
    for i, (g, x) in enumerate(zip(got, exp)):
        if g != x: return ["token %d: implementation %r, lexical grammar %r" % (i, g, x)]
    return ["implementation returned %d tokens, lexical grammar %d" % (len(got), len(exp))]


def gen_tiling(rng):
    n = rng.choice([1, 2, 3, 5, 8, 13, 30, 80, 200])
    t = "".join(rng.choice(TILING_ALPHABET) for _ in range(rng.randint(1, n)))
    return "\ufeff" + t if rng.random() < .05 else t          # a byte order mark in front is an ordinary unknown character


def gen_conform(rng):
    parts = []
    n = rng.choice([1, 2, 3, 4, 6, 10, 25])
    for _ in range(n):
        c = rng.random()
        if c < .2: lx = rng.choice(KEYWORDS)
        elif c < .4: lx = rng.choice(NEAR)
        elif c < .6: lx = rng.choice(SYMS)
        elif c < .7: lx = rng.choice(INTS)
        elif c < .8: lx = rng.choice(HEXS)
        elif c < .88: lx = rng.choice(CHARS)
        else: lx = "//" + rng.choice(COMMENT_BODIES) + rng.choice(["\n", "\n", "\r\n"])
        parts.append(lx); parts.append(rng.choice(SEPS))
    text = "".join(parts)
    if rng.random() < .15: text = text.rstrip() + rng.choice(["//", "// eof", "// ü"])   # comment running to the end of the text
    return text


def check_batch(ad, texts, mode, part):
    res = ad.call(op="lexmany", texts=texts)
    if "results" not in res:
        part["inconclusive"].append("adaptor: %r" % (res,)); return
    for text, toks in zip(texts, res["results"]):
        part.ev()
        if isinstance(toks, dict):
            part.fail("lexer panicked on %r: %s" % (text[:80], toks.get("panic")), {"kind": mode, "text": text}); continue
        fails = tiling_failures(text, toks)
        nt = len(toks) - 1
        if mode == "conform":
            cf = conform_failures(text, toks)
            if cf is None: part.cnt("conform_skipped_lexically_invalid")
            else:
                part.cnt("conform_compared"); fails += cf
                for (x, y) in zip(toks, toks[1:]): part.add("adjacent_kind_pairs", "%s %s" % (x[0], y[0]))
        if nt >= 2: part.see(hash(text))
        for t in toks: part.add("token_kinds", t[0] if not t[4] else t[0] + "+error")
        if fails:
            part.fail("%s on %r: %s" % (mode, text[:120], "; ".join(fails[:3])), {"kind": mode, "text": text})
        elif nt >= 2:
            part.sample({"part": mode, "text": text, "tokens": [[t[0], t[1], t[2], t[3]] for t in toks[:12]]}, 2)


def worker(args):
    mode, seed, n = args
    import random
    rng = random.Random("C06/%s/%s" % (mode, seed))
    part = Part(); ad = Adaptor()
    gen = gen_tiling if mode == "tiling" else gen_conform
    for _ in range(0, n, 200):
        check_batch(ad, [gen(rng) for _ in range(200)], mode, part)
    ad.close()
    return part


def worker_exh(args):
    shard, nshards, maxlen = args
    part = Part(); ad = Adaptor()
    texts = []
    k = 0
    for L in range(1, maxlen + 1):
        for tup in itertools.product(EXH_ALPHABET, repeat=L):
            if k % nshards == shard: texts.append("".join(tup))
            k += 1
    for i in range(0, len(texts), 500):
        check_batch(ad, texts[i:i + 500], "conform", part)
    ad.close()
    return part


def run(ctx):
    quick = ctx.quick
    n_t = 160000 if quick else 1500000
    n_c = 160000 if quick else 1500000
    jobs = [("tiling", "%s/%d" % (ctx.seed, i), n_t // NCPU) for i in range(NCPU)] + [("conform", "%s/%d" % (ctx.seed, i), n_c // NCPU) for i in range(NCPU)]
    for part in pmap(worker, jobs): ctx.merge(part)
    maxlen = 4 if quick else 5
    ex = pmap(worker_exh, [(i, NCPU, maxlen) for i in range(NCPU)])
    n_ex = 0
    for part in ex: n_ex += part["evaluations"]; ctx.merge(part)
    ctx.extra["exhaustive_part"] = {"alphabet": EXH_ALPHABET, "max_length": maxlen, "texts": n_ex, "complete": True}
    ctx.rule = ("random strings over a %d-symbol hostile alphabet (tiling) + random concatenations of SPL lexemes with separators (tiling + "
                "conformance with the reference lexer where the text is lexically valid) + all strings up to length %d over a %d-symbol alphabet; "
                "distinct_nontrivial = distinct texts that yield at least two tokens" % (len(TILING_ALPHABET), maxlen, len(EXH_ALPHABET)))
    ctx.assumptions = ["the reference lexer (harness/reflex.py) is a faithful reading of the SPL lexical grammar",
                       "conformance is decided only for lexically valid text (no stray characters, unterminated literals or digit-less 0x)"]
    ctx.floor("evaluations", ctx.evaluations, 50000)
    ctx.floor("conformance comparisons", ctx.extra.get("counters", {}).get("conform_compared", 0), 10000)


def replay(ctx, sc):
    ad = Adaptor(); part = Part()
    check_batch(ad, [sc["text"]], sc["kind"], part)
    ctx.merge(part); ctx.see(1); ctx.see(2)
