"""C15 — semantic tokens are well-formed and agree with lexical class and binding kind.
Oracle: a decoder of the delta encoding + the reference lexer (well-formedness, lexical classes) + the generator's bindings
(identifier kinds, declaration modifier).  The legend is taken from the `initialize` response of the same run."""
import random
from ..core import Part, pmap, NCPU, server_bin
from ..client import ServerDied, Timeout, FrameError
from .. import gen, feat, layout, reflex, lspmodel
from . import c02gen


def decode(data):
    """[(line, char, length, type index, modifier bits)] or an error string"""
    if len(data) % 5: return "length %d is not a multiple of 5" % len(data)
    out = []; line = col = 0
    for i in range(0, len(data), 5):
        dl, ds, ln, ty, mod = data[i:i + 5]
        if any((not isinstance(x, int)) or x < 0 or x > 0x7FFFFFFF for x in (dl, ds, ln, ty, mod)): return "entry %d has an out-of-range field: %r" % (i // 5, data[i:i + 5])
        if dl: line += dl; col = ds
        else: col += ds
        out.append((line, col, ln, ty, mod))
    return out


def u16(s): return sum(2 if ord(c) > 0xFFFF else 1 for c in s)


def lexical_map(text):
    """(line, utf16 col) of every lexical token start -> (kind, utf16 length, utf16 length without the line break for comments)"""
    T = layout.Text(text); b = text.encode(); m = {}
    for k, v, a, e in reflex.lex(text):
        if k == "eof": continue
        s = b[a:e].decode()
        m[T.pos(a)] = (k, u16(s), u16(s.rstrip("\r\n")))
    return m


def wellformed(part, legend, data, text, sc):
    dec = decode(data)
    if isinstance(dec, str): part.fail("semantic tokens: " + dec, sc); return None
    lm = lexical_map(text)
    prev = None
    for (l, c, ln, ty, mod) in dec:
        if ty >= len(legend["tokenTypes"]) or mod >= (1 << len(legend["tokenModifiers"])):
            part.fail("semantic token at %d:%d uses type %d / modifiers %d outside the announced legend" % (l, c, ty, mod), sc); return None
        if prev is not None and (l, c) < (prev[0], prev[1] + prev[2]) and not (l > prev[0]):
            part.fail("semantic tokens not strictly increasing / overlapping: %r then %r" % (prev, (l, c, ln)), sc); return None
        if prev is not None and (l, c) <= (prev[0], prev[1]):
            part.fail("semantic tokens not strictly increasing: %r then %r" % (prev, (l, c, ln)), sc); return None
        lx = lm.get((l, c))
        if lx is None:
            part.fail("semantic token at %d:%d (length %d) does not start at a lexical token" % (l, c, ln), sc); return None
        if ln not in (lx[1], lx[2]):
            part.fail("semantic token at %d:%d has length %d, the lexical token %s there has length %d" % (l, c, ln, lx[0], lx[1]), sc); return None
        name = legend["tokenTypes"][ty]
        k = lx[0]
        lexclass = "comment" if k == "comment" else "keyword" if k in reflex.KEYWORDS else "number" if k in ("int", "hex", "char", "char!") else None
        if lexclass is not None and name != lexclass:
            part.fail("semantic token at %d:%d classifies the %s %r as %r" % (l, c, lexclass, k, name), sc); return None
        if lexclass is None and name in ("comment", "keyword", "number"):
            part.fail("semantic token at %d:%d classifies the lexical token %r as %r" % (l, c, k, name), sc); return None
        prev = (l, c, ln)
    return dec


KIND_NAME = {"type": "type", "proc": "function", "param": "parameter", "var": "variable"}


def classified(part, legend, dec, P, text, T, sc, open_ids=frozenset()):
    pm = feat.proc_of_tokens(P)
    got = {(l, c): (legend["tokenTypes"][ty], mod) for (l, c, ln, ty, mod) in dec}
    decl_bit = 1 << legend["tokenModifiers"].index("declaration")
    for t in P.toks:
        pos = T.pos(t.start)
        if t.kind == "comment": want = ("comment", 0)
        elif t.kind == "kw": want = ("keyword", 0)
        elif t.kind == "int": want = ("number", 0)
        elif t.kind == "id":
            b = t.bind
            if isinstance(b, gen.Decl): want = (KIND_NAME[b.kind], decl_bit if t.role == "decl" else 0)
            elif b == "builtin:int": want = ("type", 0)
            else: want = ("function", 0)
        else:
            if pos in got: part.fail("semantic token for the symbol %r at %r" % (t.text, pos), sc); return False
            continue
        g = got.get(pos)
        if g is None:
            part.fail("no semantic token for the %s %r at %d:%d" % (t.kind, t.text, pos[0], pos[1]), sc); return False
        if g != want and t.kind == "id":
            loc = feat.shadowing_local(P, t, pm)
            if loc is not None and "K-C15-1" in open_ids and g == (KIND_NAME[loc.kind], 0):
                part.known("K-C15-1", "known class"); part.add("known_classes_seen", "K-C15-1"); continue
        if g != want:
            part.fail("semantic token for %r (%s%s) at %d:%d is %r with modifiers %d, expected %r with modifiers %d" %
                      (t.text, t.kind, "/" + t.role if t.kind == "id" else "", pos[0], pos[1], g[0], g[1], want[0], want[1]), sc); return False
        if t.kind == "id": part.see((want[0], bool(want[1])))
    return True


def worker(args):
    seed, nprog, nhostile, open_ids = args
    rng = random.Random("C15/%s" % seed)
    part = Part(); sess = feat.Session()
    legend = None
    def get(text, tag):
        nonlocal legend
        uri = sess.open(text, tag)
        if legend is None: legend = sess.server().caps["result"]["capabilities"]["semanticTokensProvider"]["legend"]
        res = sess.result("textDocument/semanticTokens/full", {"textDocument": {"uri": uri}})
        return uri, res
    for it in range(nprog):
        P, text, T = feat.program(rng)
        sc = {"kind": "classified", "text": text}
        try:
            uri, res = get(text, "c15_"); part.ev()
            if not isinstance(res, dict) or "data" not in res: part.fail("semanticTokens answers %r" % (res,), sc)
            else:
                dec = wellformed(part, legend, res["data"], text, sc)
                if dec is not None and classified(part, legend, dec, P, text, T, sc, open_ids):
                    part.cnt("classified_documents")
                    if it == 0: part.sample({"part": "classification", "text": text[:200], "decoded_head": dec[:8], "legend": legend}, 1)
            if rng.random() < .4:
                # asked again after an edit that keeps every byte offset but moves the lines: a blank becomes a line break or the reverse
                idx = [i for i, c in enumerate(text) if c in " \n" and (i == 0 or text[i - 1] != "\r")]
                if idx:
                    i = rng.choice(idx); T0 = layout.Text(text); b0 = len(text[:i].encode())
                    ch = {"range": T0.rng(b0, b0 + 1), "text": "\n" if text[i] == " " else " "}
                    new = text[:i] + ch["text"] + text[i + 1:]
                    if lspmodel.apply_change(text, ch) == new:
                        sess.server().change(uri, [ch])
                        res = sess.result("textDocument/semanticTokens/full", {"textDocument": {"uri": uri}}); part.ev()
                        sc2 = {"kind": "wellformed", "text": text, "change": ch}
                        if not isinstance(res, dict) or "data" not in res: part.fail("semanticTokens after a white-space edit answers %r" % (res,), sc2)
                        elif wellformed(part, legend, res["data"], new, sc2) is not None: part.cnt("asked_again_after_a_line_moving_edit")
            sess.close(uri)
        except (ServerDied, Timeout, FrameError) as e:
            feat.died(part, e, "semanticTokens request", sc, sess)
    for it in range(nhostile):
        text = c02gen.hostile_text(rng)
        sc = {"kind": "wellformed", "text": text}
        try:
            uri, res = get(text, "c15h_"); part.ev()
            if not isinstance(res, dict) or "data" not in res: part.fail("semanticTokens answers %r" % (res,), sc)
            elif wellformed(part, legend, res["data"], text, sc) is not None:
                part.cnt("wellformed_hostile_documents"); part.see(("hostile", len(res["data"]) // 5 > 0))
            # after an edit
            if rng.random() < .5:
                ch, new = c02gen.random_lsp_change(rng, text)
                sess.server().change(uri, [ch])
                res = sess.result("textDocument/semanticTokens/full", {"textDocument": {"uri": uri}}); part.ev()
                sc2 = {"kind": "wellformed", "text": text, "change": ch}
                if not isinstance(res, dict) or "data" not in res: part.fail("semanticTokens after an edit answers %r" % (res,), sc2)
                elif wellformed(part, legend, res["data"], new, sc2) is not None: part.cnt("wellformed_after_edit")
            sess.close(uri)
        except (ServerDied, Timeout, FrameError) as e:
            feat.died(part, e, "semanticTokens request on a hostile document", sc, sess)
    feat.report(part)
    sess.kill()
    return part


def run(ctx):
    server_bin("rel")
    nprog, nh = (240, 400) if ctx.quick else (1500, 4000)
    open_ids = frozenset(f["id"] for f in ctx.open_findings())
    replay_witnesses(ctx)
    for p in pmap(worker, [("%s/%d" % (ctx.seed, i), nprog, nh, open_ids) for i in range(NCPU)]): ctx.merge(p)
    ctx.rule = ("classification: well-typed generated programs in all layouts (multi-line gaps, several declarations, comments between declarations, CRLF): every keyword, number, comment and "
                "identifier must carry its class / binding kind, `declaration` exactly on declaring occurrences; well-formedness: the same plus hostile documents (token soup, mutated programs, "
                "non-ASCII) before and after an edit: strictly increasing, non-overlapping, each token coinciding with one lexical token; distinct_nontrivial = distinct (class, is declaration) pairs")
    ctx.assumptions = ["lexical tokens from harness/reflex.py; bindings from the generator; legend from this run's initialize response"]
    ctx.floor("evaluations", ctx.evaluations, 1000)
    ctx.floor("classified documents", ctx.extra.get("counters", {}).get("classified_documents", 0), 200)


def replay_witnesses(ctx):
    import json, os
    from ..core import VERIF
    sess = feat.Session()
    for f in ctx.open_findings():
        w = json.load(open(os.path.join(VERIF, f["witness"])))["scenario"]
        try:
            uri = sess.open(w["text"], "c15w_")
            legend = sess.server().caps["result"]["capabilities"]["semanticTokensProvider"]["legend"]
            res = sess.result("textDocument/semanticTokens/full", {"textDocument": {"uri": uri}}); ctx.count(); sess.close(uri)
            dec = decode(res["data"]) if isinstance(res, dict) else []
            hit = [d for d in dec if (d[0], d[1]) == (w["line"], w["character"])]
            if not hit or legend["tokenTypes"][hit[0][3]] != w["expected"]: ctx.known(f["id"], f["what"])
            else: ctx.extra.setdefault("witnesses_no_longer_failing", []).append(f["id"])
        except (ServerDied, Timeout, FrameError):
            ctx.known(f["id"], f["what"]); sess.kill()
    sess.kill()


def replay(ctx, sc):
    part = Part(); sess = feat.Session()
    try:
        uri = sess.open(sc["text"], "c15r_")
        legend = sess.server().caps["result"]["capabilities"]["semanticTokensProvider"]["legend"]
        text = sc["text"]
        if sc.get("change"):
            sess.server().change(uri, [sc["change"]]); text = lspmodel.apply_change(text, sc["change"])
        res = sess.result("textDocument/semanticTokens/full", {"textDocument": {"uri": uri}}); part.ev()
        if not isinstance(res, dict): part.fail("semanticTokens answers %r" % (res,), sc)
        else: wellformed(part, legend, res["data"], text, sc)
        if sc["kind"] == "classified": part["inconclusive"].append("classification needs the generator's ground truth: re-run the check with the same seed")
    except (ServerDied, Timeout, FrameError) as e:
        feat.died(part, e, "replay", sc, sess)
    sess.kill(); ctx.merge(part); ctx.see(1); ctx.see(2)
