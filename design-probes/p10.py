from lsp import *
import time
s = Server()
s.request("shutdown", None); s.notify("exit", None)
t = time.time()
try:
    print("rc", s.p.wait(5), round(time.time() - t, 3))
except Exception as e:
    print("HANG with stdin open", e); s.p.kill()
s = Server()
s.notify("exit", None)
try: print("rc", s.p.wait(5))
except Exception as e: print("HANG", e); s.p.kill()
# pipelining burst: open + 500 changes + requests without reading
import threading
s = Server()
uri = "file:///b.spl"
s.open(uri, "proc main() {\n}\n")
N = 400
def writer():
    for i in range(N):
        s.change(uri, [{"range": {"start": {"line": 1, "character": 0}, "end": {"line": 1, "character": 0}}, "text": "  printi(%d);\n" % i}])
        s.id += 1
        s.send({"jsonrpc": "2.0", "id": s.id, "method": "textDocument/foldingRange", "params": {"textDocument": {"uri": uri}}})
th = threading.Thread(target=writer); th.start()
time.sleep(1.0)  # let it block on full pipes
got = []; t = time.time()
while len([m for m in got if "id" in m and "method" not in m]) < N:
    got.append(s.read_msg(20))
th.join()
resp = [m for m in got if "id" in m and "method" not in m]
print("responses", len(resp), "in order", [m["id"] for m in resp] == sorted(m["id"] for m in resp), "endLines monotone", [m["result"][0]["endLine"] for m in resp][:5], [m["result"][0]["endLine"] for m in resp][-3:])
print("diag notifications", len([m for m in got if m.get("method")]))
print(s.close())
