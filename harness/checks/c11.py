"""C11 — formatting is idempotent, canonical and honours the indentation options.
Oracle: chained requests on twins (format the formatted text again: must answer null); a second layout of the same token and
comment sequence (must format to the same text); nesting depth of every line's first token from the derivation."""
import random
from ..core import Part, pmap, NCPU, server_bin
from ..client import ServerDied, Timeout, FrameError
from .. import gen, feat, layout, reflex, fmt


def fmt_text(part, sess, text, opts, sc, what):
    uri = sess.open(text, "c11_")
    res = fmt.format_request(sess, uri, opts); part.ev()
    sess.close(uri)
    new, problem = fmt.apply_format(text, res)
    if problem: part.fail("%s: %s" % (what, problem), sc); return None, None
    if res is not None and new == text:
        part.fail("%s: an edit was returned although nothing changes (must be null)" % what, sc); return None, None
    return new, res


def check_indentation(part, P, formatted, opts, sc):
    """every line starts with unit^depth, depth = nesting depth of the first token on the line (comment lines: depth of the token they lead)"""
    u = fmt.unit(opts)
    fmt.set_depths(P)
    sig = [t for t in P.toks if t.kind != "comment"]
    lx = [x for x in reflex.lex(formatted) if x[0] != "eof"]
    lxs = [x for x in lx if x[0] != "comment"]
    if len(lxs) != len(sig): return   # token preservation is C09's subject
    b = formatted.encode()
    depth_at = {}
    for (k, v, a, e), t in zip(lxs, sig): depth_at[a] = t.depth
    # a comment line takes the depth of the next non-comment token
    nxt = None
    for k, v, a, e in reversed(lx):
        if k == "comment": depth_at[a] = nxt
        else: nxt = depth_at[a]
    pos = 0
    for line in formatted.split("\n"):
        raw = line.encode()
        stripped = line.lstrip(" \t")
        if stripped:
            ind = line[:len(line) - len(stripped)]
            off = pos + len(ind.encode())
            d = depth_at.get(off)
            if d is not None and ind != u * d:
                part.fail("line %r is indented with %r, expected %r (unit %r x depth %d)" % (stripped[:40], ind, u * d, u, d), sc); return
            if d is not None: part.see(("indent", min(d, 5), "tabs" if u == "\t" else "spaces%d" % len(u)))
        pos += len(raw) + 1


def worker(args):
    seed, nprog = args
    rng = random.Random("C11/%s" % seed)
    part = Part(); sess = feat.Session()
    for it in range(nprog):
        gs = rng.getrandbits(32)
        go = dict(size=rng.choice([1, 2, 3, 4]), depth=rng.choice([1, 2, 3, 4]), edepth=rng.choice([1, 2]), typed=rng.random() < .6)
        opts = fmt.options(rng)
        texts = []
        Ps = []
        spice = rng.getrandbits(32); gaps = rng.random() < .4
        for li in range(3):
            P = gen.generate(gs, **go)
            from .c09 import spice_literals
            spice_literals(P, random.Random(spice))                   # quote and backslash characters, leading zeros, hex, overflowing literals
            if gaps:
                gr = random.Random(spice + 1); n = 0                  # comments in arbitrary token gaps (some of them are lost: C10's subject)
                for t in list(P.toks):
                    if t.kind != "comment" and gr.random() < .05:
                        for _ in range(gr.choice([1, 1, 2])):
                            n += 1; t.lead.append(gen.Tok("comment", "// gap %d" % n))
                P.index()
            lr = random.Random("%s/%d" % (gs, li))
            eol = lr.choice(["\n", "\n", "\r\n"])
            texts.append(layout.layout(P, lr, ["random", "compact", "lines"][li] if li else lr.choice(["random", "spaced"]), eol)); Ps.append(P)
        try:
            outs = []
            for li, text in enumerate(texts):
                sc = {"kind": "format", "text": text, "options": opts}
                new, res = fmt_text(part, sess, text, opts, sc, "layout %d" % li)
                if new is None: break
                outs.append(new)
                # idempotence: the formatted text formats to itself, answered as null
                uri = sess.open(new, "c11i_"); r2 = fmt.format_request(sess, uri, opts); part.ev()
                if r2 is not None:
                    sess.close(uri)
                    n2, _ = fmt.apply_format(new, r2)
                    part.fail("formatting an already formatted document returns an edit (%s)" % ("changing it again" if n2 != new else "that changes nothing"), dict(sc, formatted=new)); break
                part.cnt("idempotence_checks")
                # the same document, still open, asked again with ANOTHER indentation unit right after the null answer: the lines stay
                # the same, only their indentation is exchanged (and an answer of null is right only if no line is indented)
                opts2 = fmt.options(rng)
                while fmt.unit(opts2) == fmt.unit(opts): opts2 = fmt.options(rng)
                r3 = fmt.format_request(sess, uri, opts2); part.ev(); sess.close(uri)
                sc3 = {"kind": "format-twice", "text": new, "options": opts, "options2": opts2}
                n3, problem = fmt.apply_format(new, r3)
                if problem: part.fail("second request with other options: %s" % problem, sc3); break
                l1 = [l.lstrip(" \t") for l in new.split("\n")]; l3 = [l.lstrip(" \t") for l in n3.split("\n")]
                if l1 != l3:
                    i = next((i for i, (x, y) in enumerate(zip(l1, l3)) if x != y), min(len(l1), len(l3)))
                    part.fail("the line structure depends on the indentation options: with %r line %d is %r, with %r it is %r" % (opts, i, l1[i:i + 1], opts2, l3[i:i + 1]), sc3); break
                nfail = part["counters"].get("failures_total", 0)
                check_indentation(part, Ps[li], n3, opts2, sc3)
                if part["counters"].get("failures_total", 0) != nfail: break
                if (r3 is None) != (n3 == new): part.fail("second request with other options: an edit that changes nothing", sc3); break
                part.cnt("option_changes_on_the_open_document"); part.see(("unit-change", "tabs" if not opts["insertSpaces"] else opts["tabSize"], "tabs" if not opts2["insertSpaces"] else opts2["tabSize"]))
                if li == 0:
                    # near-canonical layouts: the canonical text with other line endings / final newline / stray white space must be
                    # brought back to the canonical text (an answer of null is right only if the text *is* canonical)
                    variants = {"crlf": new.replace("\n", "\r\n"), "no-final-newline": new[:-1] if new.endswith("\n") else None,
                                "extra-final-newline": new + "\n", "trailing-space": new.replace("\n", " \n", 1), "cr-only": None}
                    name = rng.choice([k for k, v in variants.items() if v is not None and v != new])
                    v = variants[name]
                    scv = {"kind": "format", "text": v, "options": opts, "variant": name}
                    vn, vres = fmt_text(part, sess, v, opts, scv, "near-canonical layout (%s)" % name)
                    if vn is None: break
                    if vn != new:
                        part.fail("the canonical text with %s is %s instead of being formatted back to the canonical text" % (name, "left as it is (null)" if vres is None else "formatted to something else"), scv); break
                    part.see(("near-canonical", name)); part.cnt("near_canonical_variants")
                    check_indentation(part, Ps[0], new, opts, sc)
                    # null exactly when nothing would change
                    if (res is None) != (new == text): part.fail("null result although the text is not canonical (or the other way round)", sc)
            else:
                if len(set(outs)) != 1:
                    i = 1 if outs[1] != outs[0] else 2
                    part.fail("two layouts of the same token and comment sequence format differently", {"kind": "canonical", "text": texts[0], "text2": texts[i], "options": opts})
                else:
                    part.cnt("canonical_groups"); part.see(("canonical", hash(outs[0])))
                    if it == 0: part.sample({"part": "three layouts -> one canonical text", "options": opts, "canonical": outs[0][:200]}, 1)
        except (ServerDied, Timeout, FrameError) as e:
            feat.died(part, e, "formatting request", {"kind": "format", "text": texts[0], "options": opts}, sess)
    feat.report(part)
    sess.kill()
    return part


def run(ctx):
    server_bin("rel")
    nprog = 180 if ctx.quick else 2000
    for p in pmap(worker, [("%s/%d" % (ctx.seed, i), nprog) for i in range(NCPU)]): ctx.merge(p)
    ctx.rule = ("syntactically valid generated programs, each in three layouts (random/spaced, compact, one token per line; LF and CRLF) under one random option set (spaces with tabSize 0..8, or tabs): "
                "all three format to the same text; formatting that text again answers null; every line is indented with unit^depth; distinct_nontrivial = distinct canonical texts and (depth, unit) pairs")
    ctx.assumptions = ["nesting depth per token from the derivation (harness/fmt.py: set_depths); comments only in positions the formatter keeps (C10)"]
    ctx.floor("evaluations", ctx.evaluations, 1500)
    ctx.floor("canonical groups", ctx.extra.get("counters", {}).get("canonical_groups", 0), 200)


def replay(ctx, sc):
    part = Part(); sess = feat.Session()
    try:
        if sc.get("kind") == "format-twice":
            uri = sess.open(sc["text"], "c11r_")
            r2 = fmt.format_request(sess, uri, sc["options"]); r3 = fmt.format_request(sess, uri, sc["options2"]); part.ev(2); sess.close(uri)
            n3, problem = fmt.apply_format(sc["text"], r3)
            if r2 is not None: part.fail("formatting the formatted text returns an edit", sc)
            elif problem: part.fail(problem, sc)
            elif [l.lstrip(" \t") for l in sc["text"].split("\n")] != [l.lstrip(" \t") for l in n3.split("\n")]: part.fail("the line structure depends on the indentation options", sc)
            elif r3 is None and fmt.unit(sc["options"]) != fmt.unit(sc["options2"]) and any(l[:1] in " \t" for l in sc["text"].split("\n")):
                part.fail("null although the document is indented with another unit", sc)
            sess.kill(); ctx.merge(part); ctx.see(1); ctx.see(2); return
        new, res = fmt_text(part, sess, sc["text"], sc["options"], sc, "replay")
        if new is not None:
            uri = sess.open(new, "c11r_"); r2 = fmt.format_request(sess, uri, sc["options"]); part.ev(); sess.close(uri)
            if r2 is not None: part.fail("formatting the formatted text returns an edit", sc)
            if sc.get("text2"):
                n2, _ = fmt_text(part, sess, sc["text2"], sc["options"], sc, "second layout")
                if n2 is not None and n2 != new: part.fail("two layouts format differently", sc)
    except (ServerDied, Timeout, FrameError) as e:
        feat.died(part, e, "replay", sc, sess)
    sess.kill(); ctx.merge(part); ctx.see(1); ctx.see(2)
