# C18 probe: exhaustive message sequences vs executable lifecycle model
import subprocess, json, itertools, sys, time, os
from concurrent.futures import ThreadPoolExecutor
BIN = os.environ.get("LSP_BIN", "/tmp/probe/target/release/lsp4spl")
def frame(o):
    b = json.dumps(o).encode(); return b"Content-Length: %d\r\n\r\n" % len(b) + b
URI = "file:///x.spl"
def msg(kind, i):
    if kind == "initialize": return {"jsonrpc": "2.0", "id": i, "method": "initialize", "params": {"capabilities": {}}}
    if kind == "initialized": return {"jsonrpc": "2.0", "method": "initialized", "params": {}}
    if kind == "request": return {"jsonrpc": "2.0", "id": i, "method": "textDocument/foldingRange", "params": {"textDocument": {"uri": URI}}}
    if kind == "unknown_req": return {"jsonrpc": "2.0", "id": i, "method": "foo/bar", "params": {}}
    if kind == "doc_note": return {"jsonrpc": "2.0", "method": "textDocument/didOpen", "params": {"textDocument": {"uri": URI, "languageId": "spl", "version": 0, "text": "proc main() {}\n"}}}
    if kind == "unknown_note": return {"jsonrpc": "2.0", "method": "foo/note", "params": {}}
    if kind == "shutdown": return {"jsonrpc": "2.0", "id": i, "method": "shutdown"}
    if kind == "exit": return {"jsonrpc": "2.0", "method": "exit"}
ALPHA = ["initialize", "initialized", "request", "unknown_req", "doc_note", "unknown_note", "shutdown", "exit"]
REQ = {"initialize", "request", "unknown_req", "shutdown"}
def model(seq):
    """returns (expected responses [(id, class-set)], expected exit code set)"""
    phase = "pre"   # pre -> gap -> main -> shut ; after exit: done
    out = []; rc = None
    for i, k in enumerate(seq, 1):
        if phase == "pre":
            if k == "initialize": out.append((i, {"ok"})); phase = "gap"
            elif k in REQ: out.append((i, {-32002}))
            elif k == "exit": rc = 1; break
        elif phase == "gap":
            # between InitializeResult and `initialized`: clients must not send requests here; accept not-initialized or invalid-request
            if k in REQ: out.append((i, {-32002, -32600} if k == "initialize" else {-32002}))
            elif k == "initialized": phase = "main"
            elif k == "exit": rc = 1; break
        elif phase == "main":
            if k == "initialize": out.append((i, {-32600}))
            elif k == "request": out.append((i, {"ok"}))
            elif k == "unknown_req": out.append((i, {-32601}))
            elif k == "shutdown": out.append((i, {"ok"})); phase = "shut"
            elif k == "exit": rc = 1; break
        elif phase == "shut":
            if k in REQ: out.append((i, {-32600}))
            elif k == "exit": rc = 0; break
    return out, rc
def run(seq):
    data = b"".join(frame(msg(k, i)) for i, k in enumerate(seq, 1))
    p = subprocess.Popen([BIN], stdin=subprocess.PIPE, stdout=subprocess.PIPE, stderr=subprocess.DEVNULL)
    try: out, _ = p.communicate(data, timeout=10)
    except subprocess.TimeoutExpired: p.kill(); return "HANG", []
    got = []; rest = out
    while rest:
        j = rest.find(b"\r\n\r\n"); n = int(rest[:j].split(b":")[1]); body = rest[j+4:j+4+n]; rest = rest[j+4+n:]
        try: m = json.loads(body)
        except Exception: got.append(("TORN", len(body), n)); break
        if "id" in m and "method" not in m: got.append((m["id"], m["error"]["code"] if "error" in m else "ok"))
    return p.returncode, got
L = int(sys.argv[1])
seqs = [s for n in range(0, L + 1) for s in itertools.product(ALPHA, repeat=n)]
t = time.time(); bad = 0; shown = 0; lost = [0, 0]
with ThreadPoolExecutor(16) as ex:
    for seq, (rc, got) in zip(seqs, ex.map(run, seqs)):
        exp, erc = model(seq)
        torn = any(g[0] == "TORN" for g in got)
        got = [g for g in got if g[0] != "TORN"]
        if erc == 1:   # exit outside shutdown: process::exit(1) may drop queued responses -> accept any prefix (known finding)
            ok = len(got) <= len(exp) and all(g[0] == e[0] and g[1] in e[1] for g, e in zip(got, exp))
            if len(got) < len(exp): lost[0] += 1
            if torn: lost[1] += 1
        else:
            ok = not torn and len(got) == len(exp) and all(g[0] == e[0] and g[1] in e[1] for g, e in zip(got, exp))
        if erc is None: okrc = rc == 0    # ended by EOF: must terminate (code 0 observed on pinned)
        else: okrc = rc == erc
        if not (ok and okrc):
            bad += 1
            if shown < 8: shown += 1; print("MISMATCH", seq, "got", rc, got, "exp", erc, exp)
print("exit(1) sessions with dropped responses", lost[0], "with torn frame", lost[1]); print("sequences", len(seqs), "mismatch", bad, "time", round(time.time() - t, 1))
