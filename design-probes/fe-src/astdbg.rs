use spl_frontend::{lexer, parser};
use std::io::Read;
fn main() {
    let mut buf = Vec::new(); std::io::stdin().read_to_end(&mut buf).unwrap();
    for text in buf.split(|b| *b == 0) {
        let text = std::str::from_utf8(text).unwrap();
        let toks = lexer::lex(text);
        let ast = parser::parse(&toks);
        println!("{:#?}\n\x01", ast);
    }
}
