from lsp import *
from splgen import *
import sys, collections
s = Server()
N = int(sys.argv[1])
stat = collections.Counter()
ex = {}
def note(k, info):
    stat[k] += 1
    if k not in ex: ex[k] = info
def rng_of(tb, tk):
    a = pos_of(tb, tk.start); b = pos_of(tb, tk.end)
    return {"start": {"line": a[0], "character": a[1]}, "end": {"line": b[0], "character": b[1]}}
crashes = 0
for seed in range(N):
    g, text = generate(seed)
    tb = text.encode()
    uri = "file:///v%d.spl" % seed
    try:
        s.open(uri, text)
        for tk in g.toks:
            if tk.kind != "id": continue
            line, col = pos_of(tb, tk.start)
            for method in ["declaration", "definition", "implementation", "typeDefinition"]:
                r = s.request("textDocument/" + method, tdp(uri, line, col))
                res = r.get("result")
                b = tk.bind
                # expected
                if method in ("declaration", "definition"):
                    exp = b.name_tok if isinstance(b, Decl) else None
                elif method == "implementation":
                    exp = b.name_tok if isinstance(b, Decl) and b.kind == "proc" else None
                else:
                    if isinstance(b, Decl) and b.kind == "type": exp = b.name_tok
                    elif isinstance(b, Decl) and b.kind in ("var", "param"):
                        ty = b.ty
                        if isinstance(ty, ArrT):
                            cr = [t for t in g.types if t.name == ty.creator]
                            exp = cr[0].name_tok if cr else None
                        else: exp = None
                    else: exp = None
                exp_r = rng_of(tb, exp) if exp else None
                got = res["range"] if res else None
                ctx = "%s/%s/%s" % (method, "builtin" if not isinstance(b, Decl) else b.kind, tk.role)
                if got == exp_r: note("ok " + ctx, None)
                else: note("BAD " + ctx, (seed, tk.text, line, col, got, exp_r))
    except (EOFError, TimeoutError) as e:
        crashes += 1
        msg = str(e)
        import re
        m = re.search(r"Message:\s+(.*)\nLocation:\s+(.*)\n", re.sub(r"\x1b\[[0-9;]*m", "", msg))
        note("CRASH " + (m.group(1) + " @ " + m.group(2) if m else "?"), (seed,))
        s = Server()
for k in sorted(stat): print(stat[k], k, ex[k] if k.startswith(("BAD","CRASH")) else "")
