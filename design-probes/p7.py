from lsp import *
from splgen import *
import sys, collections, re, random
N = int(sys.argv[1]); base = int(sys.argv[2]) if len(sys.argv) > 2 else 0
stat = collections.Counter(); ex = {}
FRAGS = ["proc ", "type ", "var ", "if ", "else ", "while ", "array ", "of ", "ref ", "int", "x", "main", "printi", "(", ")", "[", "]", "{", "}", ";", ":", ":=", "=", "#", "<", "<=", "+", "-", "*", "/", ",", "0", "12", "0x1F", "0x", "'a'", "'", "'\\n'", "// c\n", "//", " ", "\n", "ä", "€", "😀", "_", "\r\n", "\t", "99999999999", "0xFFFFFFFFF"]
METHODS = ["declaration", "definition", "typeDefinition", "implementation", "references", "hover", "rename", "prepareRename", "completion", "signatureHelp"]
DOCM = ["foldingRange", "semanticTokens/full", "formatting"]
def mutate(rng, text):
    k = rng.random()
    if k < .2: # token soup
        return "".join(rng.choice(FRAGS) for _ in range(rng.randint(0, 40)))
    t = text
    for _ in range(rng.randint(1, 4)):
        if not t: break
        a = rng.randrange(len(t) + 1); b = min(len(t), a + rng.choice([0, 0, 1, 2, 5, 30]))
        t = t[:a] + "".join(rng.choice(FRAGS) for _ in range(rng.randint(0, 3))) + t[b:]
    return t
crash_sites = collections.Counter(); crash_ex = {}
S = Server()
nreq = 0
for seed in range(base, base + N):
    rng = random.Random(seed)
    g, text = generate(seed)
    text = mutate(rng, text)
    uri = "file:///m%d.spl" % seed
    lines = text.split("\n")
    def run(label, f):
        global S, nreq
        try:
            nreq += 1
            return f()
        except (EOFError, TimeoutError) as e:
            msg = re.sub(r"\x1b\[[0-9;]*m", "", str(e)); m = re.search(r"Message:\s+(.*)\nLocation:\s+(.*)\n", msg)
            key = (label, (m.group(1)[:80] + " @ " + m.group(2)) if m else repr(e)[:100])
            crash_sites[key] += 1
            if key not in crash_ex: crash_ex[key] = (seed, text[:300])
            S = Server(); S.open(uri, text)
            return None
    run("didOpen", lambda: (S.open(uri, text), S.diags(uri)))
    for m in DOCM:
        params = {"textDocument": {"uri": uri}}
        if m == "formatting": params["options"] = {"tabSize": 4, "insertSpaces": True}
        run(m, lambda: S.request("textDocument/" + m, params))
    for _ in range(25):
        l = rng.randrange(len(lines) + 2); c = rng.randrange(len(lines[l]) + 3) if l < len(lines) else rng.randrange(5)
        m = rng.choice(METHODS)
        p = tdp(uri, l, c)
        if m == "rename": p["newName"] = "q"
        if m == "references": p["context"] = {"includeDeclaration": True}
        run(m, lambda: S.request("textDocument/" + m, p))
    # a few edits then doc-level requests
    for _ in range(3):
        l = rng.randrange(len(lines) + 1); c = rng.randrange(10)
        l2 = l + rng.choice([0, 0, 1]); c2 = c + rng.randrange(5)
        ch = [{"range": {"start": {"line": l, "character": c}, "end": {"line": l2, "character": c2}}, "text": "".join(rng.choice(FRAGS) for _ in range(rng.randint(0, 3)))}]
        run("didChange", lambda: (S.change(uri, ch), S.diags(uri)))
        for m in DOCM:
            params = {"textDocument": {"uri": uri}}
            if m == "formatting": params["options"] = {"tabSize": 4, "insertSpaces": True}
            run("after-edit " + m, lambda: S.request("textDocument/" + m, params))
print("requests", nreq, "crashes", sum(crash_sites.values()), "distinct", len(crash_sites))
for k, v in crash_sites.most_common(): print(v, k, repr(crash_ex[k])[:300])
