import json, subprocess, os, select, time, sys

BIN = os.environ.get("LSP_BIN", "/tmp/probe/target/release/lsp4spl")

class Server:
    def __init__(self, binpath=BIN, diagnostics=True, env=None):
        e = dict(os.environ)
        e["RUST_BACKTRACE"] = "1"
        if env: e.update(env)
        self.p = subprocess.Popen([binpath], stdin=subprocess.PIPE, stdout=subprocess.PIPE, stderr=subprocess.PIPE, env=e)
        self.buf = b""
        self.id = 0
        self.notes = []
        caps = {"textDocument": {"publishDiagnostics": {}}} if diagnostics else {}
        r = self.request("initialize", {"capabilities": caps})
        self.caps = r
        self.notify("initialized", {})

    def send_raw(self, b):
        self.p.stdin.write(b); self.p.stdin.flush()

    def send(self, obj):
        body = json.dumps(obj).encode()
        self.send_raw(b"Content-Length: %d\r\n\r\n" % len(body) + body)

    def notify(self, method, params):
        self.send({"jsonrpc": "2.0", "method": method, "params": params})

    def read_msg(self, timeout=10):
        deadline = time.time() + timeout
        while True:
            i = self.buf.find(b"\r\n\r\n")
            if i >= 0:
                hdr = self.buf[:i].decode()
                n = None
                for l in hdr.split("\r\n"):
                    if l.lower().startswith("content-length:"):
                        n = int(l.split(":")[1])
                if len(self.buf) >= i + 4 + n:
                    body = self.buf[i+4:i+4+n]
                    self.buf = self.buf[i+4+n:]
                    return json.loads(body)
            rem = deadline - time.time()
            if rem <= 0: raise TimeoutError()
            r, _, _ = select.select([self.p.stdout], [], [], rem)
            if not r: raise TimeoutError()
            d = os.read(self.p.stdout.fileno(), 65536)
            if not d: raise EOFError(self.stderr())
            self.buf += d

    def request(self, method, params, timeout=10):
        self.id += 1
        self.send({"jsonrpc": "2.0", "id": self.id, "method": method, "params": params})
        while True:
            m = self.read_msg(timeout)
            if "id" in m and "method" not in m:
                assert m["id"] == self.id, m
                return m
            self.notes.append(m)

    def open(self, uri, text):
        self.notify("textDocument/didOpen", {"textDocument": {"uri": uri, "languageId": "spl", "version": 0, "text": text}})

    def change(self, uri, changes):
        self.notify("textDocument/didChange", {"textDocument": {"uri": uri, "version": 1}, "contentChanges": changes})

    def diags(self, uri):
        # sync by a request, then take last publishDiagnostics
        self.request("textDocument/foldingRange", {"textDocument": {"uri": uri}})
        d = [n for n in self.notes if n.get("method") == "textDocument/publishDiagnostics" and n["params"]["uri"] == uri]
        return d[-1]["params"]["diagnostics"] if d else None

    def stderr(self):
        try:
            self.p.stdin.close()
        except Exception: pass
        try:
            self.p.wait(5)
        except Exception:
            self.p.kill()
        return self.p.stderr.read().decode(errors="replace")

    def close(self):
        try:
            self.request("shutdown", None)
            self.notify("exit", None)
            self.p.stdin.close()
            return self.p.wait(5)
        except Exception as e:
            self.p.kill()
            return repr(e)

def tdp(uri, line, ch):
    return {"textDocument": {"uri": uri}, "position": {"line": line, "character": ch}}
