"""C10 — formatting never loses or duplicates a comment.
Oracle: reference lexer on both texts; every comment body is unique, so a loss or a duplicate is attributed to the gap the
comment was written in.  Gap classes are grammar positions (nearest comment-carrying construct, slot, context), enumerated
exhaustively; random programs with comments in random gaps on top."""
import random, json, os
from ..core import Part, pmap, NCPU, server_bin, VERIF
from ..client import ServerDied, Timeout, FrameError
from .. import gen, feat, layout, reflex, fmt
from ..gen import Tok

CARRIERS = ("TypeDecl", "ProcDecl", "Param", "VarDecl", "Assign", "Call", "Empty", "If", "While", "Block")


def annotate(P):
    """gap class of the gap in front of every token: (carrier kind, slot, context of the carrier)"""
    P.index()
    cls = {}
    def ctx_of(parent, node):
        if parent is None: return "top"
        if parent.kind in ("ProcDecl", "Block"): return "in-list"
        if parent.kind == "If":
            if node is parent.then: return "then-branch"
            return "else-if" if node.kind == "If" else "else-branch"
        if parent.kind == "While": return "while-body"
        return parent.kind
    def rec(n, parent, carrier, cctx):
        if n.kind in CARRIERS:
            carrier = n; cctx = ctx_of(parent, n)
        for i, p in enumerate(n.parts):
            if isinstance(p, Tok):
                if carrier is None: cls[p.uid] = ("Program", "slot%d" % i, "top")
                else:
                    first = gen.first_tok(carrier) is p
                    # slot: position of the part of the carrier that contains this token
                    j = next(k for k, q in enumerate(carrier.parts) if (q is p) or (isinstance(q, gen.Node) and contains(q, p)))
                    inner = "" if carrier.parts[j] is p or gen.first_tok(carrier.parts[j]) is p else "+inner"
                    slot = "lead" if first else slot_name(carrier, j) + inner
                    cls[p.uid] = (carrier.kind, slot, cctx)
            else:
                rec(p, n, carrier, cctx)
    def contains(n, tok):
        return any(t is tok for t in gen.walk_toks(n))
    rec(P.root, None, None, "top")
    return cls


def slot_name(c, j):
    k = c.kind; p = c.parts[j]
    if isinstance(p, Tok): return "before`%s`" % p.text
    if k == "ProcDecl":
        if p is c.name: return "name"
        if p in c.params: return "param"
        if p in c.vars: return "var"
        return "stmt"
    if k == "Call": return "name" if p is c.name else "arg"
    if k == "If": return "cond" if p is c.cond else "then" if p is c.then else "else"
    if k == "While": return "cond" if p is c.cond else "body"
    if k == "Assign": return "target" if p is c.target else "expr"
    if k == "Block": return "stmt"
    return p.kind


def comments_of(text):
    return [v.strip() for k, v, a, b in reflex.lex(text) if k == "comment"]


def run_one(part, sess, P, placed, eol, opts, what, open_ids, known_classes):
    """placed: list of (comment token, class key). returns nothing; records failures / known findings"""
    text = layout.render(P.index(), eol)
    sc = {"kind": "comments", "text": text, "options": opts, "placed": [[c.text[2:].strip(), list(k)] for c, k in placed]}
    uri = sess.open(text, "c10_")
    res = fmt.format_request(sess, uri, opts); part.ev()
    sess.close(uri)
    new, problem = fmt.apply_format(text, res)
    if problem: part.fail("formatting: " + problem, sc); return
    before = comments_of(text); after = comments_of(new)
    if before == after:
        for c, k in placed: part.see(k); part.add("classes_kept", "/".join(k))
        return
    body_cls = {c.text[2:].strip(): k for c, k in placed}
    lost = [b for b in before if b not in after]
    dup = [b for b in set(after) if after.count(b) > before.count(b)]
    new_bodies = [b for b in after if b not in before]
    excused = True; bad = []
    for b in lost:
        k = body_cls.get(b)
        fid = known_classes.get("/".join(k)) if k else None
        if fid and fid in open_ids: part.known(fid, "comment in gap class %s is lost" % "/".join(k)); part.add("known_classes_seen", "/".join(k))
        else: excused = False; bad.append("comment %r written in gap class %s is lost" % (b, "/".join(k) if k else "?"))
    if dup: excused = False; bad.append("comments duplicated: %r" % dup[:3])
    if new_bodies: excused = False; bad.append("comment text changed or invented: %r" % new_bodies[:3])
    if not lost and not dup and not new_bodies and before != after:
        excused = False; bad.append("relative order of comments changed: %r -> %r" % (before[:6], after[:6]))
    if not excused: part.fail("%s: %s" % (what, "; ".join(bad[:3])), sc)
    else:
        for c, k in placed:
            if c.text[2:].strip() not in lost: part.see(k); part.add("classes_kept", "/".join(k))


def strip_comments(P):
    for t in P.index():
        t.lead = []
    P.trail = []
    P.index()


def worker(args):
    seed, nprog, open_ids, known_classes, exhaustive = args
    rng = random.Random("C10/%s" % seed)
    part = Part(); sess = feat.Session()
    n = 0
    for it in range(nprog):
        P = gen.generate(rng.getrandbits(32), size=rng.choice([1, 2, 3]), depth=rng.choice([1, 2, 3]), edepth=2, typed=rng.random() < .7, docs=0, stmt_comments=0)
        strip_comments(P)
        eol = rng.choice(["\n", "\n", "\r\n"])
        layout.assign_ws(P.toks, rng, rng.choice(["random", "spaced", "lines"]), eol)
        cls = annotate(P)
        opts = fmt.options(rng)
        toks = [t for t in P.toks]
        try:
            if exhaustive:
                # one comment in exactly one gap, one representative gap per class of this program
                reps = {}
                for t in toks: reps.setdefault(cls[t.uid], t)
                for k, t in reps.items():
                    n += 1; c = Tok("comment", "// only %d" % n); t.lead = [c]
                    run_one(part, sess, P, [(c, k)], eol, opts, "single comment", open_ids, known_classes)
                    t.lead = []
                n += 1; c = Tok("comment", "// only %d" % n); P.trail = [c]
                run_one(part, sess, P, [(c, ("Program", "eof", "top"))], eol, opts, "single comment", open_ids, known_classes)
                P.trail = []
            else:
                placed = []
                for t in rng.sample(toks, min(len(toks), rng.randint(1, 10))):
                    n += 1; c = Tok("comment", "// c%d %s" % (n, rng.choice(["", "ü€", "x := 1;", "// nested"]))); t.lead.append(c); placed.append((c, cls[t.uid]))
                run_one(part, sess, P, placed, eol, opts, "%d comments in random gaps" % len(placed), open_ids, known_classes)
        except (ServerDied, Timeout, FrameError) as e:
            feat.died(part, e, "formatting request", {"kind": "doc", "text": layout.render(P.index(), eol)}, sess)
    feat.report(part)
    sess.kill()
    return part


def load_classes(ctx):
    known = {}
    for f in ctx.open_findings():
        for k in f.get("gap_classes", []): known[k] = f["id"]
    return known


def replay_witnesses(ctx):
    sess = feat.Session()
    for f in ctx.open_findings():
        w = json.load(open(os.path.join(VERIF, f["witness"])))
        for sc in w["scenarios"]:
            try:
                uri = sess.open(sc["text"], "c10w_")
                res = fmt.format_request(sess, uri, sc["options"]); ctx.count(); sess.close(uri)
                new, problem = fmt.apply_format(sc["text"], res)
                still = problem is not None or comments_of(new) != comments_of(sc["text"])
            except (ServerDied, Timeout, FrameError):
                still = True; sess.kill()
            if still: ctx.known(f["id"], f["what"])
            else: ctx.extra.setdefault("witnesses_no_longer_failing", []).append(f["id"] + ":" + sc.get("class", ""))
    sess.kill()


def run(ctx):
    server_bin("rel")
    replay_witnesses(ctx)
    known_classes = load_classes(ctx)
    open_ids = set(f["id"] for f in ctx.open_findings())
    ne, nr = (25, 120) if ctx.quick else (300, 2500)
    for p in pmap(worker, [("%s/e%d" % (ctx.seed, i), ne, open_ids, known_classes, True) for i in range(NCPU)]): ctx.merge(p)
    for p in pmap(worker, [("%s/r%d" % (ctx.seed, i), nr, open_ids, known_classes, False) for i in range(NCPU)]): ctx.merge(p)
    ctx.rule = ("gap class = (nearest comment-carrying construct, slot inside it, context of the construct); for every program one comment in one representative gap of each of its classes "
                "(single-comment runs, exhaustive over the classes that occur), plus programs with 1-10 comments in random gaps and after the last token; "
                "distinct_nontrivial = distinct gap classes in which the comment was kept")
    ctx.assumptions = ["comment bodies are unique per document, so losses and duplicates are attributed to the gap they were written in",
                       "gap classes listed under a known finding are excused only for *losing* the comment written there"]
    ctx.floor("evaluations", ctx.evaluations, 1500)
    ctx.floor("gap classes kept", len(ctx.distinct), 25)


def replay(ctx, sc):
    part = Part(); sess = feat.Session()
    try:
        uri = sess.open(sc["text"], "c10r_")
        res = fmt.format_request(sess, uri, sc["options"]); part.ev(); sess.close(uri)
        new, problem = fmt.apply_format(sc["text"], res)
        if problem: part.fail(problem, sc)
        elif comments_of(new) != comments_of(sc["text"]): part.fail("comments before %r, after %r" % (comments_of(sc["text"])[:6], comments_of(new)[:6]), sc)
    except (ServerDied, Timeout, FrameError) as e:
        feat.died(part, e, "replay", sc, sess)
    sess.kill(); ctx.merge(part); ctx.see(1); ctx.see(2)
