"""C06 — tokenisation is lossless and follows the SPL lexical grammar.
Oracle: (a) tiling predicate over the token ranges and the text; (b) the reference lexer (harness/reflex.py).
Observed at: spl_frontend::lexer::lex through the adaptor."""
import itertools
from ..core import Adaptor, Part, pmap, NCPU
from .. import reflex

WS = " \t\r\n"
TILING_ALPHABET = ["a", "i", "f", "0", "x", "9", "'", "/", "\n", " ", "<", "=", ":", "é", "\\", "n", "\r", "\t", "_", "(", "#",
                   "ı", "ł", "€", "😀", "-", "*", ";", "\"", "@", "$", "\x00", " ", " ", "F", "w", "h", "l", "e", "[", "}", ",", "+", ">",
                   "\x0b", "\x0c", "\x85", "\xa0", "\u2028", "\u3000", "\ufeff"]       # white space for Unicode but not for SPL; byte order mark
EXH_ALPHABET = ["a", "f", "0", "x", "1", "'", "/", "\n", " ", "<", "=", ":", "é", "\\"]

KEYWORDS = ["if", "else", "while", "array", "of", "proc", "ref", "type", "var"]
NEAR = ["ifx", "proce", "whil", "_if", "if_", "if0", "elsee", "Proc", "IF", "types", "vars", "o", "off", "int", "main", "x", "y1", "_", "__a9", "aB_c"]
SYMS = ["(", ")", "[", "]", "{", "}", "=", "#", "<", "<=", ">", ">=", ":=", ":", ",", ";", "+", "-", "*", "/"]
INTS = ["0", "1", "007", "12", "4294967295", "4294967296", "99999999999999999999", "000"]
HEXS = ["0x0", "0xff", "0xFF", "0x1F", "0xFFFFFFFF", "0x100000000", "0x0000000A", "0xabcdef"]
CHARS = ["'a'", "'''", "'\\'", "'\\n'", "' '", "'0'", "'/'", "'\t'"]
COMMENT_BODIES = ["", " c", " näme ünicode", " €uro 😀", " // nested", " if (x) {", "\t tab", " trailing  ", "x:=1;", " 'a", " 0x"]
SEPS = ["", " ", "  ", "\t", "\n", "\r\n", " \n "]


def tiling_failures(text, toks):
    """toks: [[kind, value, start, end, errs], ...] as returned by the implementation"""
    b = text.encode()
    out = []
    if not toks or toks[-1][0] != "eof": return ["last token is not EOF"]
    if sum(1 for t in toks if t[0] == "eof") != 1: out.append("not exactly one EOF token")
    if toks[-1][2] != len(b) or toks[-1][3] != len(b): out.append("EOF token at %s..%s, text has %d bytes" % (toks[-1][2], toks[-1][3], len(b)))
    pos = 0
    for i, t in enumerate(toks):
        k, v, a, e = t[0], t[1], t[2], t[3]
        if a < pos: out.append("token %d (%s) at %d..%d overlaps or precedes the previous token ending at %d" % (i, k, a, e, pos)); break
        if e < a or (e == a and k != "eof"): out.append("token %d (%s) has an empty or inverted range %d..%d" % (i, k, a, e)); break
        if e > len(b): out.append("token %d (%s) range %d..%d beyond the text" % (i, k, a, e)); break
        for off in (a, e):
            if off < len(b) and (b[off] & 0xC0) == 0x80: out.append("token %d (%s) range %d..%d not on a character boundary" % (i, k, a, e))
        gap = b[pos:a]
        if gap.strip(b" \t\r\n"): out.append("gap %d..%d before token %d contains non-white-space %r" % (pos, a, i, gap[:20]))
        pos = e
    return out


def norm_impl(toks):
    """implementation tokens in the vocabulary of the reference lexer; lexical errors become a flag"""
    out = []
    for k, v, a, e, errs in toks:
        out.append((k, v, a, e, bool(errs)))
    return out


def norm_ref(toks):
    out = []
    for k, v, a, e in toks:
        if k == "char!": out.append(("char", v, a, e, True))
        elif k in ("int", "hex") and v is None: out.append((k, None, a, e, True))
        else: out.append((k, v, a, e, False))
    return out


def lexically_valid(ref):
    return not any(k in ("unknown", "char!") or (k == "hex" and e - a == 2) for k, v, a, e in ref)


def conform_failures(text, toks):
    ref = reflex.lex(text)
    if not lexically_valid(ref): return None
    got = norm_impl(toks); exp = norm_ref(ref)
    if got == exp: return []
    for i, (g, x) in enumerate(zip(got, exp)):
        if g != x: return ["token %d: implementation %r, lexical grammar %r" % (i, g, x)]
    return ["implementation returned %d tokens, lexical grammar %d" % (len(got), len(exp))]


def gen_tiling(rng):
    n = rng.choice([1, 2, 3, 5, 8, 13, 30, 80, 200])
    t = "".join(rng.choice(TILING_ALPHABET) for _ in range(rng.randint(1, n)))
    return "\ufeff" + t if rng.random() < .05 else t          # a byte order mark in front is an ordinary unknown character


def gen_conform(rng):
    parts = []
    n = rng.choice([1, 2, 3, 4, 6, 10, 25])
    for _ in range(n):
        c = rng.random()
        if c < .2: lx = rng.choice(KEYWORDS)
        elif c < .4: lx = rng.choice(NEAR)
        elif c < .6: lx = rng.choice(SYMS)
        elif c < .7: lx = rng.choice(INTS)
        elif c < .8: lx = rng.choice(HEXS)
        elif c < .88: lx = rng.choice(CHARS)
        else: lx = "//" + rng.choice(COMMENT_BODIES) + rng.choice(["\n", "\n", "\r\n"])
        parts.append(lx); parts.append(rng.choice(SEPS))
    text = "".join(parts)
    if rng.random() < .15: text = text.rstrip() + rng.choice(["//", "// eof", "// ü"])   # comment running to the end of the text
    return text


def _charpos(b, i):
    while 0 < i < len(b) and (b[i] & 0xC0) == 0x80: i -= 1
    return i


def earlier_version(rng, text):
    """(old text, a, e, new): a text one change away from `text` (byte offsets in the old text), such that applying the change yields `text`:
    a span of `text` is missing, or a surplus piece stands there, or another piece stands in its place. Blank-only insertions at the end
    of the text and behind comments are frequent on purpose (an editor's most common change)."""
    b = text.encode()
    c = rng.random()
    if c < .25 and b:
        # the last k characters were typed last (k = 1 mostly)
        a = _charpos(b, max(0, len(b) - rng.choice([1, 1, 1, 2, 3]))); e = len(b)
    else:
        a, e = sorted(_charpos(b, rng.randrange(len(b) + 1)) for _ in range(2))
        if rng.random() < .7: e = _charpos(b, min(e, a + rng.choice([1, 1, 2, 4, 9])))
    span = b[a:e]
    m = rng.random()
    if m < .6: old_piece = b""
    else:
        x = _charpos(b, rng.randrange(len(b) + 1)); y = _charpos(b, min(len(b), x + rng.choice([1, 2, 3, 6])))
        old_piece = b[x:y]
        if m < .8: span = b""; e = a                        # surplus piece, the change deletes it
    if old_piece == span: return None
    old = b[:a] + old_piece + b[e:]
    return [old.decode(), a, a + len(old_piece), span.decode()]


def check_batch(ad, texts, mode, part, via=None):
    """via: list of (old text, a, e, new) per text - the tokens are then those of lexer::update after lex(old text)"""
    res = ad.call(op="lexmany", texts=texts) if via is None else ad.call(op="lexvia", items=via)
    if "results" not in res:
        part["inconclusive"].append("adaptor: %r" % (res,)); return
    for k, (text, toks) in enumerate(zip(texts, res["results"])):
        part.ev()
        if isinstance(toks, dict) and toks.get("harness_error"):
            part["inconclusive"].append("harness produced a bad change"); continue
        if isinstance(toks, dict):
            part.fail("lexer panicked on %r: %s" % (text[:80], toks.get("panic")), {"kind": mode, "text": text, "via": via[k] if via else None}); continue
        fails = tiling_failures(text, toks)
        nt = len(toks) - 1
        if mode == "conform":
            cf = conform_failures(text, toks)
            if cf is None: part.cnt("conform_skipped_lexically_invalid")
            else:
                part.cnt("conform_compared"); fails += cf
                for (x, y) in zip(toks, toks[1:]): part.add("adjacent_kind_pairs", "%s %s" % (x[0], y[0]))
        if nt >= 2: part.see(hash(text))
        for t in toks: part.add("token_kinds", t[0] if not t[4] else t[0] + "+error")
        if via is not None: part.cnt("texts_reached_by_an_incremental_update")
        if fails:
            part.fail("%s on %r%s: %s" % (mode, text[:120], "" if via is None else " (token sequence after lexer::update from %r)" % (via[k][0][:60],), "; ".join(fails[:3])),
                      {"kind": mode, "text": text, "via": via[k] if via else None})
        elif nt >= 2:
            part.sample({"part": mode, "text": text, "tokens": [[t[0], t[1], t[2], t[3]] for t in toks[:12]]}, 2)


def worker(args):
    mode, seed, n = args
    import random
    rng = random.Random("C06/%s/%s" % (mode, seed))
    part = Part(); ad = Adaptor()
    gen = gen_tiling if mode == "tiling" else gen_conform
    for _ in range(0, n, 200):
        check_batch(ad, [gen(rng) for _ in range(200)], mode, part)
    # "for every text": also for the token sequences the incremental lexer leaves behind (a quarter as many texts, each reached by one change)
    for _ in range(0, n // 4, 200):
        texts = []; via = []
        while len(texts) < 200:
            t = gen(rng)
            v = earlier_version(rng, t)
            if v is None: continue
            texts.append(t); via.append(v)
        check_batch(ad, texts, mode, part, via)
    ad.close()
    return part


def worker_exh(args):
    shard, nshards, maxlen = args
    part = Part(); ad = Adaptor()
    texts = []
    k = 0
    for L in range(1, maxlen + 1):
        for tup in itertools.product(EXH_ALPHABET, repeat=L):
            if k % nshards == shard: texts.append("".join(tup))
            k += 1
    for i in range(0, len(texts), 500):
        check_batch(ad, texts[i:i + 500], "conform", part)
    ad.close()
    return part


def run(ctx):
    quick = ctx.quick
    n_t = 160000 if quick else 1500000
    n_c = 160000 if quick else 1500000
    jobs = [("tiling", "%s/%d" % (ctx.seed, i), n_t // NCPU) for i in range(NCPU)] + [("conform", "%s/%d" % (ctx.seed, i), n_c // NCPU) for i in range(NCPU)]
    for part in pmap(worker, jobs): ctx.merge(part)
    maxlen = 4 if quick else 5
    ex = pmap(worker_exh, [(i, NCPU, maxlen) for i in range(NCPU)])
    n_ex = 0
    for part in ex: n_ex += part["evaluations"]; ctx.merge(part)
    ctx.extra["exhaustive_part"] = {"alphabet": EXH_ALPHABET, "max_length": maxlen, "texts": n_ex, "complete": True}
    ctx.rule = ("random strings over a %d-symbol hostile alphabet (tiling) + random concatenations of SPL lexemes with separators (tiling + "
                "conformance with the reference lexer where the text is lexically valid) + all strings up to length %d over a %d-symbol alphabet; a fifth of the random "
                "texts are reached by one change (typed tail, missing / surplus / exchanged piece) and judged on the token sequence lexer::update returns; "
                "distinct_nontrivial = distinct texts that yield at least two tokens" % (len(TILING_ALPHABET), maxlen, len(EXH_ALPHABET)))
    ctx.assumptions = ["the reference lexer (harness/reflex.py) is a faithful reading of the SPL lexical grammar",
                       "conformance is decided only for lexically valid text (no stray characters, unterminated literals or digit-less 0x)"]
    ctx.floor("evaluations", ctx.evaluations, 50000)
    ctx.floor("conformance comparisons", ctx.extra.get("counters", {}).get("conform_compared", 0), 10000)
    ctx.floor("texts whose token sequence came from lexer::update", ctx.extra.get("counters", {}).get("texts_reached_by_an_incremental_update", 0), 10000)


def replay(ctx, sc):
    ad = Adaptor(); part = Part()
    check_batch(ad, [sc["text"]], sc["kind"], part, [sc["via"]] if sc.get("via") else None)
    ctx.merge(part); ctx.see(1); ctx.see(2)
