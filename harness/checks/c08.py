"""C08 — the server's copy of a document always equals the client's, positions included.
Oracle: the reference LSP text model (harness/lspmodel.py: UTF-16 columns; \\n, \\r\\n, \\r end a line; overshooting column ->
end of that line; overshooting line -> end of document; change without range -> whole text; batched changes in order).
Observed at: `$/verif/text` after every notification (hook H1) and prepareRename/hover round trips."""
import random
from ..core import Part, pmap, NCPU, server_bin
from ..client import Server, ServerDied, Timeout, FrameError, tdp
from .. import lspmodel, reflex

FRAGS = ["x", "y1", "idx", "main", "proc ", "type ", "var ", "if ", "while ", "(", ")", "{", "}", ";", ":=", ":", "=", "<", "+", "1", "42", "0x1F", "'a'", "'€'", "'😀'",
         "é", "€", "😀", "ä", "ł", " ", "  ", "\t", "\n", "\n", "\r\n", "\r", "\n\n", "// c é€😀 x\n", "// tail", "/", "'", "_a"]
URIS = ["file:///c08/plain.spl", "file:///c08/with%20space.spl", "file:///c08/%C3%A4%E2%82%AC.spl", "file:///c08/dir/sub/x.spl", "untitled:Untitled-1", "file:///C:/c08/win.spl"]


def rand_text(rng, n):
    return "".join(rng.choice(FRAGS) for _ in range(n))


def u16len(s): return sum(2 if ord(c) > 0xFFFF else 1 for c in s)


def rand_pos(rng, text, spans):
    """a position: mostly valid, sometimes overshooting the column or the line; never inside a surrogate pair"""
    line = rng.randrange(len(spans) + (2 if rng.random() < .1 else 0))
    if line >= len(spans): return {"line": line + rng.choice([0, 1, 100]), "character": rng.choice([0, 3, 1000])}
    a, e, _ = spans[line]
    seg = text[a:e]
    k = rng.randint(0, len(seg))
    col = u16len(seg[:k])
    if rng.random() < .12: col = u16len(seg) + rng.choice([1, 2, 50, 100000])
    return {"line": line, "character": col}


def rand_change(rng, text):
    if rng.random() < .1:
        return {"text": rand_text(rng, rng.randint(0, 30))}          # full-text replacement
    spans = lspmodel.line_spans(text)
    kind = rng.random()
    p = rand_pos(rng, text, spans)
    if kind < .25: q = dict(p)                                         # zero width
    elif kind < .4 and p["line"] < len(spans):                        # whole line incl. its break
        p = {"line": p["line"], "character": 0}; q = {"line": p["line"] + 1, "character": 0}
    elif kind < .5 and p["line"] < len(spans):                        # the content of a line without its break (may join a CR and a LF around it)
        a_, e_, _n = spans[p["line"]]
        p = {"line": p["line"], "character": 0}; q = {"line": p["line"], "character": u16len(text[a_:e_])}
    else: q = rand_pos(rng, text, spans)
    a = lspmodel.offset(text, p["line"], p["character"], spans); b = lspmodel.offset(text, q["line"], q["character"], spans)
    if b < a: p, q = q, p
    # after sorting by model offset the range must also be ordered as a pair of positions (overshooting columns can disagree)
    if (p["line"], p["character"]) > (q["line"], q["character"]): q = dict(p)
    ch = {"range": {"start": p, "end": q}, "text": rand_text(rng, rng.choice([0, 0, 1, 1, 2, 5, 12]))}
    if rng.random() < .3:
        # the deprecated optional member, with its correct value: the length of the replaced range in UTF-16 code units
        a = lspmodel.offset(text, p["line"], p["character"], spans); b = lspmodel.offset(text, q["line"], q["character"], spans)
        ch["rangeLength"] = u16len(text[a:b])
    return ch


def ident_tokens(text):
    """identifiers of the client's text whose boundaries do not depend on how non-ASCII characters outside comments are lexed
    (lexically invalid text: the lexical grammar does not say to which token such a character belongs)"""
    out = []; b8 = text.encode()
    for k, v, a, b in reflex.lex(text):
        if k == "ident" and v != "int":
            if (a > 0 and b8[a - 1] >= 0x80) or (b < len(b8) and b8[b] >= 0x80): continue
            out.append((v, a, b))
    return out


def worker(args):
    seed, nhist, maxsteps, known = args
    rng = random.Random("C08/%s" % seed)
    part = Part(); srv = None
    for it in range(nhist):
        uri = rng.choice(URIS)
        text = rand_text(rng, rng.randint(0, 60))
        log = [{"open": text, "uri": uri}]
        try:
            if srv is None or not srv.alive(): srv = Server(server_bin("rel"))
            srv.open(uri, text)
            got = srv.text_of(uri)
            part.ev()
            if got != text:
                part.fail("after didOpen the server holds %r, the client %r" % (got[:80] if got is not None else None, text[:80]), {"kind": "sync", "log": log}); srv.close_doc(uri); continue
            ok = True
            for step in range(rng.randint(1, maxsteps)):
                changes = []; t = text
                for _ in range(rng.choice([1, 1, 1, 2, 3, 4])):
                    ch = rand_change(rng, t); changes.append(ch); t = lspmodel.apply_change(t, ch)
                log.append({"change": changes})
                srv.change(uri, changes)
                got = srv.text_of(uri)
                part.ev()
                for ch in changes:
                    r = ch.get("range")
                    if r is None: part.see("full-text")
                    else:
                        sp = lspmodel.line_spans(text)
                        over_l = r["end"]["line"] >= len(sp); over_c = (not over_l) and r["end"]["character"] > u16len(text[sp[r["end"]["line"]][0]:sp[r["end"]["line"]][1]])
                        part.see(("ranged", "multi" if r["start"]["line"] != r["end"]["line"] else "single", "zero" if r["start"] == r["end"] else "nonzero",
                                  "over-line" if over_l else "over-col" if over_c else "inside", len(changes)))
                if got != t:
                    i = next((i for i, (x, y) in enumerate(zip(got or "", t)) if x != y), min(len(got or ""), len(t)))
                    part.fail("after notification %d (%d change(s)) the server's text differs from the client's at code point %d: server %r, client %r; last change %r"
                              % (step, len(changes), i, (got or "")[max(0, i - 15):i + 15], t[max(0, i - 15):i + 15], changes[-1]), {"kind": "sync", "log": log}); ok = False; break
                text = t
                if rng.random() < .25:
                    # position round trip: every identifier of the client's text, addressed by its client position, must come back with its client range
                    ids = ident_tokens(text)
                    for name, a, b in rng.sample(ids, min(5, len(ids))):
                        cp_a = len(text.encode()[:a].decode()); cp_b = len(text.encode()[:b].decode())
                        la, ca = lspmodel.position(text, cp_a); lb, cb = lspmodel.position(text, cp_b)
                        want = {"start": {"line": la, "character": ca}, "end": {"line": lb, "character": cb}}
                        r = srv.request("textDocument/prepareRename", tdp(uri, la, ca)).get("result")
                        part.ev(); part.cnt("round_trips")
                        # the reported range must start where the client sees the identifier and cover it (the server may lex a longer
                        # word on lexically invalid text), and sent back as a position it must address the same token again
                        bad = None
                        if not r or r["start"] != want["start"] or (r["end"]["line"], r["end"]["character"]) < (lb, cb): bad = "answers %r" % (r,)
                        else:
                            sp = lspmodel.line_spans(text)
                            sl = text[lspmodel.offset(text, r["start"]["line"], r["start"]["character"], sp):lspmodel.offset(text, r["end"]["line"], r["end"]["character"], sp)]
                            if not sl.startswith(name) or any(c in " \t\r\n" for c in sl): bad = "reports a range that covers %r" % sl
                            else:
                                r2 = srv.request("textDocument/prepareRename", tdp(uri, r["start"]["line"], r["start"]["character"])).get("result")
                                h = srv.request("textDocument/hover", tdp(uri, r["start"]["line"], r["start"]["character"])).get("result")
                                if r2 != r: bad = "reports %r, but that range's start sent back addresses %r" % (r, r2)
                                elif h is not None and h.get("range") != r: bad = "reports %r, hover at its start reports %r" % (r, h.get("range"))
                        if bad:
                            part.fail("prepareRename at the client position of identifier %r (%r) %s" % (name, want, bad), {"kind": "sync", "log": log, "probe": [name, want]}); ok = False; break
                    if not ok: break
            srv.close_doc(uri)
            if ok and it == 0: part.sample({"part": "sync history", "uri": uri, "initial": log[0]["open"][:80], "first_changes": log[1:3]}, 1)
        except (ServerDied, Timeout, FrameError) as e:
            sig = getattr(e, "stderr", None)
            from ..client import panic_signature
            ps = panic_signature(e.stderr) if isinstance(e, ServerDied) else (str(e), "")
            part.cnt("server_deaths")
            k = next((f for f in known if f["message"] in ps[0]), None)
            if k: part.known(k["id"], k["what"])
            else: part.fail("server failed while synchronising (%s): %s" % (type(e).__name__, ps,), {"kind": "sync", "log": log})
            if srv: srv.kill()
            srv = None
    if srv: srv.kill()
    return part


def worker_burst(args):
    """a burst of notifications on a large document, written without waiting for anything (more than the server's queues hold),
    then one read: the text must be the result of all changes in the order they were sent"""
    seed, nbursts, sizes = args
    rng = random.Random("C08/burst/%s" % seed)
    part = Part(); srv = None
    for it in range(nbursts):
        uri = rng.choice(URIS)
        filler = "".join("proc filler%d(a: int, ref b: int) {\n    var c: int; // ü€\n    c := a * %d + b;\n    if (c < a) { b := c; } else { b := a; }\n}\n" % (j, j) for j in range(rng.choice(sizes)))
        text = filler + rand_text(rng, 30)
        log = [{"open": text, "uri": uri}]
        try:
            if srv is None or not srv.alive(): srv = Server(server_bin("rel"))
            srv.open(uri, text)
            n = rng.choice([40, 80, 150] if max(sizes) < 1000 else [40, 80, 150, 300])
            for k in range(n):
                spans = lspmodel.line_spans(text)
                ln = rng.randrange(len(spans)); col = rng.randint(0, 8)
                ch = {"range": {"start": {"line": ln, "character": col}, "end": {"line": ln, "character": col + rng.choice([0, 0, 1])}}, "text": rng.choice(["x", "y€", " ", "\n", "1;", ""]) + str(k % 10)}
                text = lspmodel.apply_change(text, ch); log.append({"change": [ch]})
                srv.change(uri, [ch], k + 1)
            got = srv.text_of(uri); part.ev(n)
            if got != text:
                i = next((i for i, (x, y) in enumerate(zip(got or "", text)) if x != y), min(len(got or ""), len(text)))
                part.fail("after a burst of %d pipelined notifications on a document of %d lines the server's text differs from the client's at code point %d: server %r, client %r"
                          % (n, len(lspmodel.line_spans(text)), i, (got or "")[max(0, i - 15):i + 15], text[max(0, i - 15):i + 15]), {"kind": "sync", "log": log})
            else: part.cnt("bursts"); part.see(("burst", n >= 80, len(filler) > 100000))
            srv.close_doc(uri)
        except (ServerDied, Timeout, FrameError) as e:
            part.fail("server failed during a burst of notifications (%s): %s" % (type(e).__name__, e), {"kind": "sync", "log": log})
            if srv: srv.kill()
            srv = None
    if srv: srv.kill()
    return part


def replay_log(srv, log):
    uri = log[0]["uri"]; text = log[0]["open"]
    srv.open(uri, text)
    for e in log[1:]:
        srv.change(uri, e["change"]); text = lspmodel.apply_changes(text, e["change"])
    return uri, text, srv.text_of(uri)


def run(ctx):
    server_bin("rel")
    from ..core import load_findings
    known = [f for f in load_findings()["findings"] if f.get("status") == "open" and f.get("kind") == "crash"]
    nh, ms = (120, 40) if ctx.quick else (1500, 50)
    for p in pmap(worker, [("%s/%d" % (ctx.seed, i), nh, ms, known) for i in range(NCPU)]): ctx.merge(p)
    for p in pmap(worker_burst, [("%s/%d" % (ctx.seed, i), 1 if ctx.quick else 40, [50, 200, 400] if ctx.quick else [50, 400, 1500]) for i in range(NCPU)]): ctx.merge(p)
    ctx.floor("bursts of pipelined notifications", ctx.extra.get("counters", {}).get("bursts", 0) if not ctx.violations else 1, 1)
    ctx.rule = ("random documents over ASCII, 2/3/4-byte characters, CR, LF, CRLF, empty lines; histories of up to 50 notifications with 1-4 changes each (ranged: zero width, "
                "within a line, whole lines, across lines, overshooting column, overshooting line; every ~10th a full-text replacement); six URI shapes incl. percent escapes; "
                "server text compared after every notification; bursts of 40-300 pipelined notifications on documents of up to 7 500 lines, text compared after the burst; distinct_nontrivial = distinct (range shape, overshoot kind, batch size) classes")
    ctx.assumptions = ["the LSP text model in harness/lspmodel.py is a faithful reading of the LSP 3.17 position rules", "positions inside a surrogate pair are not generated"]
    ctx.floor("evaluations", ctx.evaluations, 5000)
    ctx.floor("position round trips", ctx.extra.get("counters", {}).get("round_trips", 0), 300)


def replay(ctx, sc):
    part = Part(); srv = Server(server_bin("rel"))
    try:
        uri, text, got = replay_log(srv, sc["log"]); part.ev()
        if got != text: part.fail("server text %r differs from client text %r" % ((got or "")[:100], text[:100]), sc)
    except (ServerDied, Timeout, FrameError) as e:
        part.fail("server failed: %s" % e, sc)
    srv.kill(); ctx.merge(part); ctx.see(1); ctx.see(2)
