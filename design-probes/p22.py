import os
from lsp import *
s = Server(binpath=os.environ.get("LSP_BIN"))
s.open("file:///t.spl", "type main = int;\nproc main() {}\n")
try:
    print(s.diags("file:///t.spl"))
except Exception as e:
    import re
    print(re.sub(r"\x1b\[[0-9;]*m", "", str(e))[:600])
