"""Edit histories on generated programs.  Every edit mutates the derivation (so source and result are syntactically valid
by construction), re-renders the text with the layout of all untouched tokens preserved, and yields the text change as the
difference of the two texts (optionally widened), i.e. exactly what a client would send."""
import random
from . import gen, layout
from .gen import Node, Tok, sym, kw

EXPR_KINDS = ("IntLit", "NamedVar", "ArrayAccess", "Binary", "Unary", "Paren")
WS = ["", " ", "  ", "\n", "\n  ", "\t", " \n\n "]


def byte_diff(old, new, rng=None, widen=0.0):
    """smallest replaced byte range on character boundaries turning old into new: [start, end, text]"""
    a, b = old.encode(), new.encode()
    p = 0; n = min(len(a), len(b))
    while p < n and a[p] == b[p]: p += 1
    s = 0
    while s < n - p and a[len(a) - 1 - s] == b[len(b) - 1 - s]: s += 1
    if rng is not None and rng.random() < widen:
        p = max(0, p - rng.randint(0, 6)); s = max(0, s - rng.randint(0, 6))
    while p > 0 and p < len(a) and (a[p] & 0xC0) == 0x80: p -= 1
    while p > 0 and p < len(b) and (b[p] & 0xC0) == 0x80: p -= 1
    while s > 0 and (a[len(a) - s] & 0xC0) == 0x80: s -= 1
    while s > 0 and (b[len(b) - s] & 0xC0) == 0x80: s -= 1
    # a boundary between the \r and the \n of one line break cannot be expressed as an LSP position: move it outwards
    if 0 < p < len(a) and a[p - 1] == 0x0D and a[p] == 0x0A: p -= 1
    e = len(a) - s
    if 0 < e < len(a) and a[e - 1] == 0x0D and a[e] == 0x0A and s > 0: s -= 1
    return [p, len(a) - s, b[p:len(b) - s].decode()]


def apply_change(text, ch):
    b = text.encode()
    return (b[:ch[0]] + ch[2].encode() + b[ch[1]:]).decode()


class Doc:
    CLASSES = ["ins_stmt", "del_stmt", "repl_stmt", "ins_decl", "del_decl", "ins_var", "del_var", "ins_param", "del_param", "ins_comment", "del_comment",
               "ws", "repl_literal", "repl_ident", "repl_expr", "type_char", "append_eof",
               "add_else", "del_else", "ins_arg", "del_arg", "toggle_ref", "change_op", "wrap_paren", "negate", "wrap_block", "ins_gap_comment", "del_gap_comment"]

    # ---- structural edits below the statement level (still valid -> valid)
    def _stmts(s, kind=None):
        return [(st, proc, parent, in_list) for st, proc, parent, in_list, depth in s.P.statements() if kind is None or st.kind == kind]

    def add_else(s):
        c = [x for x in s._stmts("If") if x[0].els is None and not (x[2].kind == "If" and x[2].then is x[0] and x[2].els is not None)]
        if not c: return None
        st, proc, parent, in_list = s.rng.choice(c)
        s.G.cur = proc; s.G.type_pool = getattr(proc, "visible_types", None)
        e = s.G.block(0) if s.rng.random() < .5 else s.G.stmt(0, ["assign", "call", "empty"])
        k = kw("else")
        if s.rng.random() < .25: k.lead.append(s.G.comment("else"))        # ... behind a comment line that follows the then-branch
        st.els = e; st.parts = st.parts + [k, e]
        return "block" if e.kind == "Block" else "simple"

    def del_else(s):
        c = [x for x in s._stmts("If") if x[0].els is not None]
        if not c: return None
        st = s.rng.choice(c)[0]
        st.els = None; st.parts = st.parts[:5]
        return "else"

    def ins_arg(s):
        c = s._stmts("Call")
        if not c: return None
        st, proc, parent, in_list = s.rng.choice(c)
        s.G.cur = proc
        a = s.G.expr(s.rng.choice([0, 1, 2]))
        i = s.rng.randint(0, len(st.args))
        st.args.insert(i, a); s._rebuild_call(st)
        return "first" if i == 0 else "last" if i == len(st.args) - 1 else "middle"

    def del_arg(s):
        c = [x for x in s._stmts("Call") if x[0].args]
        if not c: return None
        st = s.rng.choice(c)[0]
        i = s.rng.randrange(len(st.args)); st.args.pop(i); s._rebuild_call(st)
        return "first" if i == 0 else "other"

    def _rebuild_call(s, st):
        parts = [st.name, st.lparen]; st.commas = []
        for i, a in enumerate(st.args):
            if i:
                c = sym(","); st.commas.append(c); parts.append(c)
            parts.append(a)
        st.parts = parts + [st.rparen, st.parts[-1]]

    def toggle_ref(s):
        c = [p for proc in s.P.procs for p in proc.params]
        if not c: return None
        p = s.rng.choice(c); n = p.node
        if n.is_ref: n.parts = n.parts[1:]; n.is_ref = False; p.is_ref = False
        else:
            k = kw("ref"); k.lead, n.parts[0].parts[0].lead = n.parts[0].parts[0].lead, []     # doc comments stay in front of the parameter
            n.parts = [k] + n.parts; n.is_ref = True; p.is_ref = True
        return "ref" if n.is_ref else "value"

    def change_op(s):
        c = [n for n in gen.walk_nodes(s.P.root) if n.kind == "Binary"]
        if not c: return None
        n = s.rng.choice(c)
        same = {"+": "-", "-": "+", "*": "/", "/": "*"}.get(n.op) or s.rng.choice([o for o in gen.COMPARE if o != n.op])
        n.op = same; n.parts[1].text = same       # same precedence level: the derivation keeps its shape
        return "arith" if same in gen.ARITH else "compare"

    def _expr_sites(s):
        sites = []
        for n in gen.walk_nodes(s.P.root):
            for i, p in enumerate(n.parts):
                if isinstance(p, Node) and p.kind in ("IntLit", "NamedVar", "ArrayAccess", "Paren") and n.kind != "ArrayType" and not (n.kind in ("Assign", "ArrayAccess") and i == 0):
                    sites.append((n, i))
        return sites

    def _replace_part(s, n, i, new):
        old = n.parts[i]; n.parts[i] = new
        for k, v in list(n.__dict__.items()):
            if v is old: n.__dict__[k] = new
            elif isinstance(v, list) and k != "parts":
                for j, x in enumerate(v):
                    if x is old: v[j] = new

    def wrap_paren(s):
        sites = s._expr_sites()
        if not sites: return None
        n, i = s.rng.choice(sites); old = n.parts[i]
        if old.kind == "Paren" and s.rng.random() < .5:
            inner = old.expr
            if inner.kind == "Binary" and n.kind in ("Binary", "Unary"): return None      # removing these parentheses would change the derivation
            s._replace_part(n, i, inner); return "unwrap"
        s._replace_part(n, i, gen.mk_paren(old)); return "wrap"

    def negate(s):
        sites = [(n, i) for n, i in s._expr_sites()]
        if not sites: return None
        n, i = s.rng.choice(sites)
        s._replace_part(n, i, gen.mk_unary(n.parts[i])); return "minus"

    def wrap_block(s):
        c = [x for x in s._stmts() if x[3]]
        if not c: return None
        st, proc, parent, in_list = s.rng.choice(c)
        lst = parent.stmts; i = next(k for k, x in enumerate(lst) if x is st)
        if st.kind == "Block" and s.rng.random() < .5:
            lst[i:i + 1] = st.stmts; label = "unwrap"
        else:
            lst[i] = gen.mk_block([st]); label = "wrap"
        if parent.kind == "ProcDecl": gen.rebuild_proc(parent.decl)
        else: gen.rebuild_block(parent)
        return label

    def __init__(s, seed, rng, typed=True, eol="\n", style="random", **opts):
        s.rng = rng; s.eol = eol; s.style = style
        s.G = gen.Gen(random.Random(seed), typed=typed, **opts)
        s.P = s.G.program()
        s.G.r = rng
        s.text = s.render()

    def render(s):
        toks = s.P.index()
        layout.assign_ws(toks, s.rng, s.style, s.eol)
        return layout.render(toks, s.eol)

    # ------------------------------------------------------------------ edits (return a label or None)
    def ins_stmt(s):
        if not s.P.procs: return None
        proc, cont, depth = s.rng.choice(gen.stmt_lists(s.P))
        s.G.cur = proc; s.G.type_pool = getattr(proc, "visible_types", None)
        st = s.G.stmt(max(0, 2 - depth))
        gen.insert_stmt(cont, s.rng.randint(0, len(cont.stmts)), st)
        return "depth%d" % min(depth, 3)

    def del_stmt(s):
        c = [(p, n, d) for p, n, d in gen.stmt_lists(s.P) if n.stmts]
        if not c: return None
        proc, cont, depth = s.rng.choice(c)
        gen.remove_stmt(cont, s.rng.randrange(len(cont.stmts)))
        return "depth%d" % min(depth, 3)

    def repl_stmt(s):
        c = [(p, n, d) for p, n, d in gen.stmt_lists(s.P) if n.stmts]
        if not c: return None
        proc, cont, depth = s.rng.choice(c)
        i = s.rng.randrange(len(cont.stmts))
        gen.remove_stmt(cont, i)
        s.G.cur = proc; s.G.type_pool = getattr(proc, "visible_types", None)
        gen.insert_stmt(cont, i, s.G.stmt(max(0, 2 - depth)))
        return "depth%d" % min(depth, 3)

    def ins_decl(s):
        G = s.G; P = s.P
        idx = s.rng.randint(0, len(P.root.parts))
        if s.rng.random() < .4:
            save = P.types; P.types = [t for t in P.types if t.node in P.root.parts[:idx]]
            d = G.type_decl(); new = P.types[-1]; P.types = save + [new]
        else:
            before = [t for t in P.types if t.node in P.root.parts[:idx]]
            save = P.types; P.types = before
            d = G.proc_head(G.fresh("q"), False); P.types = save
            G.proc_body(d)
        P.root.parts.insert(idx, d.node); P.root.decls.insert(idx, d)
        return d.kind + ("@first" if idx == 0 else "@last" if idx == len(P.root.parts) - 1 else "@middle")

    def del_decl(s):
        P = s.P
        if len(P.root.parts) < 2: return None
        i = s.rng.randrange(len(P.root.parts))
        d = P.root.decls.pop(i); P.root.parts.pop(i)
        if d in P.types: P.types.remove(d)
        if d in P.procs: P.procs.remove(d)
        return d.kind + ("@first" if i == 0 else "@last" if i == len(P.root.parts) else "@middle")

    def ins_var(s):
        G = s.G
        if not s.P.procs: return None
        proc = s.rng.choice(s.P.procs)
        G.cur = proc; G.type_pool = getattr(proc, "visible_types", None)
        name = G.local_name(proc, "v")
        te, ty, tref = G.type_expr(None)
        v = gen.mk_vardecl(name, te, ty, proc)
        if s.rng.random() < .3: v.node.parts[0].lead.append(G.comment("vdoc"))
        G.type_pool = None
        i = s.rng.randint(0, len(proc.node.vars))
        proc.node.vars.insert(i, v.node); proc.locals.append(v); gen.rebuild_proc(proc)
        return "var"

    def del_var(s):
        c = [p for p in s.P.procs if p.node.vars]
        if not c: return None
        proc = s.rng.choice(c)
        n = proc.node.vars.pop(s.rng.randrange(len(proc.node.vars)))
        proc.locals = [v for v in proc.locals if v.node is not n]; gen.rebuild_proc(proc)
        return "var"

    def ins_param(s):
        G = s.G
        if not s.P.procs: return None
        proc = s.rng.choice(s.P.procs)
        G.type_pool = getattr(proc, "visible_types", None)
        name = G.local_name(proc, "a")
        te, ty, tref = G.type_expr(None)
        G.type_pool = None
        p = gen.mk_param(name, te, s.rng.random() < .5 or isinstance(ty, gen.ArrT), ty, proc)
        proc.params.insert(s.rng.randint(0, len(proc.params)), p); gen.rebuild_proc(proc)
        return "param"

    def del_param(s):
        c = [p for p in s.P.procs if p.params]
        if not c: return None
        proc = s.rng.choice(c)
        proc.params.pop(s.rng.randrange(len(proc.params))); gen.rebuild_proc(proc)
        return "param"

    def _leading_sites(s):
        """first tokens of statements and declarations (leading positions for comments)"""
        out = []
        for n in gen.walk_nodes(s.P.root):
            if n.kind in gen.STMT_KINDS or n.kind in ("TypeDecl", "ProcDecl", "VarDecl"):
                out.append((gen.first_tok(n), n.kind))
        return out

    def ins_comment(s):
        sites = s._leading_sites()
        if not sites: return None
        t, k = s.rng.choice(sites)
        c = s.G.comment("edit"); t.lead.insert(s.rng.randint(0, len(t.lead)), c)
        return ("doc:" if k.endswith("Decl") else "stmt:") + k

    def del_comment(s):
        sites = [(t, k) for t, k in s._leading_sites() if t.lead]
        if not sites: return None
        t, k = s.rng.choice(sites)
        t.lead.pop(s.rng.randrange(len(t.lead)))
        return ("doc:" if k.endswith("Decl") else "stmt:") + k

    def ins_gap_comment(s):
        """a comment line in an arbitrary token gap (between a keyword and a name, inside an expression, before a separator ...)"""
        toks = [t for t in s.P.toks if t.kind != "comment"]
        if not toks: return None
        t = s.rng.choice(toks)
        t.lead.insert(s.rng.randint(0, len(t.lead)), s.G.comment("gap"))
        return "gap"

    def del_gap_comment(s):
        toks = [t for t in s.P.toks if t.kind != "comment" and t.lead]
        if not toks: return None
        t = s.rng.choice(toks)
        t.lead.pop(s.rng.randrange(len(t.lead)))
        return "gap"

    def ws(s):
        toks = s.P.toks
        if not toks: return None
        t = s.rng.choice(toks)
        old = t.pre
        t.pre = s.rng.choice(WS).replace("\n", s.eol)
        return "grow" if len(t.pre) > len(old or "") else "shrink"

    def repl_literal(s):
        c = [t for t in s.P.toks if t.kind == "int"]
        if not c: return None
        t = s.rng.choice(c)
        n = s.rng.choice([0, 1, 9, 10, 99, 100, 255, 65536, 4294967295])
        t.text = s.rng.choice([str(n), "0x%X" % n, "'a'", "'\\n'", "007"]); t.val = None
        return "literal"

    def repl_ident(s):
        c = [t for t in s.P.toks if t.kind == "id" and t.text != "main"]
        if not c: return None
        t = s.rng.choice(c)
        names = [x.text for x in c] + ["fresh_name", "i", "x9", "int"]
        t.text = s.rng.choice(names)
        return "ident:" + (t.role or "use")

    def repl_expr(s):
        sites = []
        for n in gen.walk_nodes(s.P.root):
            for i, p in enumerate(n.parts):
                if isinstance(p, Node) and p.kind in EXPR_KINDS and n.kind != "ArrayType":
                    if n.kind in ("Assign", "ArrayAccess") and i == 0: continue   # assignment target / indexed variable must stay a variable
                    sites.append((n, i))
        if not sites: return None
        n, i = s.rng.choice(sites)
        old = n.parts[i]
        # the enclosing procedure gives the scope
        proc = None
        for p in s.P.procs:
            if p.node.a is not None and old.a is not None and p.node.a <= old.a < p.node.b: proc = p
        if proc is None: return None
        s.G.cur = proc
        if n.kind in ("If", "While") and i == 2: new = s.G.comp(1)
        elif n.kind == "Binary":
            # keep the derivation the grammar mandates: operands of an arithmetic operator are factors / terms
            new = s.G.primary(1)
        elif n.kind == "Unary": new = s.G.primary(1)
        else: new = s.G.expr(s.rng.choice([0, 1, 2]))
        n.parts[i] = new
        for k, v in list(n.__dict__.items()):
            if v is old: n.__dict__[k] = new
            elif isinstance(v, list) and k != "parts":
                for j, x in enumerate(v):
                    if x is old: v[j] = new
        return "in:" + n.kind

    def type_char(s):
        c = [t for t in s.P.toks if (t.kind == "int" and t.text.isdigit()) or (t.kind == "id" and t.text not in ("main", "int"))]
        if not c: return None
        t = s.rng.choice(c)
        if t.kind == "int":
            if s.rng.random() < .3 and len(t.text) > 1: t.text = t.text[:-1]
            else: t.text += s.rng.choice("0123456789")
            return "digit"
        if s.rng.random() < .3 and len(t.text) > 1: t.text = t.text[:-1]
        else: t.text += s.rng.choice("abz_09")
        return "letter"

    def append_eof(s):
        P = s.P
        if s.rng.random() < .4:
            P.trail.append(s.G.comment("eof")); return "comment"
        idx = len(P.root.parts)
        before = list(P.types)
        d = s.G.type_decl() if s.rng.random() < .5 else None
        if d is None:
            d = s.G.proc_head(s.G.fresh("q"), False); s.G.proc_body(d)
        P.root.parts.append(d.node); P.root.decls.append(d)
        return "decl"

    # ------------------------------------------------------------------ driver
    def step(s, classes=None, widen=.3):
        """apply one random edit; returns (class label, change) or None if no edit was applicable"""
        for _ in range(10):
            k = s.rng.choice(classes or s.CLASSES)
            label = getattr(s, k)()
            if label is None: continue
            new = s.render()
            if new == s.text: continue
            ch = byte_diff(s.text, new, s.rng, widen)
            s.text = new
            return k + "/" + label, ch
        return None
