#!/usr/bin/python3
"""census of C01 divergences *outside* the deciding sub-space (edits through syntactically broken states); build-time tool.
Writes the shortest distinct witnesses to /verif/witnesses/K-C01-broken-*.json and prints a summary."""
import sys, random, json, collections
sys.path.insert(0, '/verif')
from harness import gen, layout, edits
from harness.core import pmap, Adaptor
from harness.checks import c02gen

import os
SALT = os.environ.get("CENSUS_SALT", "")
FRAG = ["(", ")", "{", "}", ";", ":=", "if", "else", "while", "x", "1", ",", "[", "]", "var", "proc", "type", ":", "=", "<", "+", "// c\n", "'", "0x"]

def work(seed):
    from harness.checks import c01
    rng = random.Random("c01census/%s/%s" % (SALT, seed)); ad = Adaptor(); out = []; n = 0
    for it in range(int(os.environ.get("CENSUS_N", "1500"))):
        text, steps = c01.make_damage_history(rng)
        if not steps: continue
        r = ad.call(op="history", text=text, steps=steps)
        n += r.get("steps_done", len(steps))
        if r.get("div") or r.get("update_panic"):
            k = (r.get("div") or {}).get("step", r.get("step"))
            cur = text
            for st in steps[:k]:
                for ch in st: cur = edits.apply_change(cur, ch)
            ch = steps[k][0]
            r2 = ad.call(op="history", text=cur, steps=[[ch]])
            d = r2.get("div") or r.get("div")
            sig = ("panic:" + json.dumps(r.get("update_panic"))[:60]) if r.get("update_panic") else ",".join(d["what"]) + "|" + str((d["detail"].get("tree_diff") or {}).get("updated", [""])[0]) + ">" + str((d["detail"].get("tree_diff") or {}).get("fresh", [""])[0]) + ("" if r2.get("div") else " (needs the history)")
            out.append((len(cur), sig, cur if r2.get("div") else text, ch if r2.get("div") else steps[:k + 1]))
    ad.close()
    return n, out

if __name__ == "__main__":
    tot = 0; allw = []
    for n, out in pmap(work, range(int(sys.argv[1]) if len(sys.argv) > 1 else 16)):
        tot += n; allw += out
    print("steps", tot, "divergences", len(allw), "rate %.3f%%" % (100.0 * len(allw) / max(tot, 1)))
    by = collections.defaultdict(list)
    for w in allw: by[w[1]].append(w)
    print("distinct signatures", len(by))
    keep = []
    for sig, ws in sorted(by.items(), key=lambda kv: -len(kv[1])):
        ws.sort(key=lambda w: w[0]); keep.append(ws[0])
        print("%4d %s | shortest %d bytes" % (len(ws), sig, ws[0][0]))
    json.dump([{"signature": w[1], "text": w[2], "change": w[3]} for w in keep], open("/tmp/c01census%s.json" % SALT, "w"), indent=1)
