use spl_frontend::{AnalyzedSource, TextChange, ToRange, ast::*, lexer, tokens::*};
use std::panic;
struct Rng(u64);
impl Rng { fn next(&mut self) -> u64 { self.0 = self.0.wrapping_add(0x9E3779B97F4A7C15); let mut z = self.0; z = (z ^ (z >> 30)).wrapping_mul(0xBF58476D1CE4E5B9); z = (z ^ (z >> 27)).wrapping_mul(0x94D049BB133111EB); z ^ (z >> 31) } fn below(&mut self, n: usize) -> usize { (self.next() % n as u64) as usize } fn pick<'a, T>(&mut self, v: &'a [T]) -> &'a T { &v[self.below(v.len())] } }
const TOKS: &[&str] = &["proc", "type", "var", "if", "else", "while", "array", "of", "ref", "int", "x", "y", "f", "(", ")", "[", "]", "{", "}", ";", ":", ":=", "=", "<", "+", "-", "*", ",", "1", "// c\n"];
const PROGS: &[&str] = &[
 "type A = array [3] of int; proc f(ref a: A) { a[1] := 2; }",
 "proc g() { } proc f() { var a: array [3] of array [4] of int; a[1][2] := 5; }",
 "proc g() { } proc f() { x := 1 + 2 * 3; f(4, 5); if (6 < 7) x := 8; else x := 9; }",
 "proc f() { while (1 < 2) { x := a[3]; } }",
];
fn check_expr(e: &Expression, base: usize, toks: &[Token], bad: &mut Vec<String>) {
    match e {
        Expression::IntLiteral(i) => check_int(i, base, toks, bad),
        Expression::Binary(b) => { check_expr(&b.lhs, base, toks, bad); check_expr(&b.rhs, base, toks, bad); }
        Expression::Bracketed(b) => check_expr(&b.expr, base, toks, bad),
        Expression::Unary(u) => check_expr(&u.expr, base, toks, bad),
        Expression::Variable(v) => check_var(v, base, toks, bad),
        Expression::Error(_) => {}
    }
}
fn check_var(v: &Variable, base: usize, toks: &[Token], bad: &mut Vec<String>) {
    if let Variable::ArrayAccess(a) = v { check_var(&a.array, base, toks, bad); if let Some(i) = &a.index { check_expr(i, base + i.offset, toks, bad); } }
}
fn check_int(i: &IntLiteral, base: usize, toks: &[Token], bad: &mut Vec<String>) {
    let r = i.to_range(); let (a, b) = (base + r.start, base + r.end);
    if b > toks.len() || !toks[a..b].iter().any(|t| matches!(t.token_type, TokenType::Int(_) | TokenType::Hex(_) | TokenType::Char(_))) { bad.push(format!("IntLiteral {}..{}", a, b)); }
}
fn check_type(t: &Reference<TypeExpression>, base: usize, toks: &[Token], bad: &mut Vec<String>) {
    let base = base + t.offset;
    if let TypeExpression::ArrayType { size, base_type, .. } = t.as_ref() { if let Some(s) = size { check_int(s, base, toks, bad); } if let Some(b) = base_type { check_type(b, base, toks, bad); } }
}
fn check_stmt(s: &Reference<Statement>, base: usize, toks: &[Token], bad: &mut Vec<String>) {
    let base = base + s.offset;
    match s.as_ref() {
        Statement::Assignment(a) => { check_var(&a.variable, base, toks, bad); if let Some(e) = &a.expr { check_expr(e, base + e.offset, toks, bad); } }
        Statement::Call(c) => for a in &c.arguments { check_expr(a, base + a.offset, toks, bad); },
        Statement::If(i) => { if let Some(c) = &i.condition { check_expr(c, base + c.offset, toks, bad); } if let Some(b) = &i.if_branch { check_stmt(b, base, toks, bad); } if let Some(b) = &i.else_branch { check_stmt(b, base, toks, bad); } }
        Statement::While(w) => { if let Some(c) = &w.condition { check_expr(c, base + c.offset, toks, bad); } if let Some(b) = &w.statement { check_stmt(b, base, toks, bad); } }
        Statement::Block(b) => for s in &b.statements { check_stmt(s, base, toks, bad); },
        _ => {}
    }
}
fn check(a: &AnalyzedSource) -> Vec<String> {
    let mut bad = vec![];
    for gd in &a.ast.global_declarations {
        match gd.as_ref() {
            GlobalDeclaration::Type(t) => if let Some(te) = &t.type_expr { check_type(te, gd.offset, &a.tokens, &mut bad); },
            GlobalDeclaration::Procedure(p) => {
                for prm in &p.parameters { if let ParameterDeclaration::Valid { type_expr: Some(te), .. } = prm.as_ref() { check_type(te, gd.offset + prm.offset, &a.tokens, &mut bad); } }
                for v in &p.variable_declarations { if let VariableDeclaration::Valid { type_expr: Some(te), .. } = v.as_ref() { check_type(te, gd.offset + v.offset, &a.tokens, &mut bad); } }
                for s in &p.statements { check_stmt(s, gd.offset, &a.tokens, &mut bad); }
            }
            _ => {}
        }
    }
    bad
}
fn main() {
    let args: Vec<String> = std::env::args().collect();
    let seed: u64 = args[1].parse().unwrap(); let iters: usize = args[2].parse().unwrap();
    panic::set_hook(Box::new(|_| {}));
    let mut r = Rng(seed); let mut n = 0; let mut found = 0;
    let mut seen = std::collections::BTreeSet::new();
    for _ in 0..iters {
        let text = (*r.pick(PROGS)).to_string();
        let toks: Vec<(usize, usize)> = lexer::lex(&text).iter().map(|t| (t.range.start, t.range.end)).collect();
        let i = r.below(toks.len()); let k = r.below(3).min(toks.len() - 1 - i.min(toks.len() - 1)); let m = r.below(3);
        if k == 0 && m == 0 { continue; }
        let start = toks[i].0; let end = if k == 0 { start } else { toks[i + k - 1].1 };
        let mut ins = String::new(); for _ in 0..m { ins += *r.pick(TOKS); ins += " "; }
        let ch = TextChange { range: start..end, text: ins };
        let cur = AnalyzedSource::new(text.clone()); n += 1;
        let chc = ch.clone();
        if let Ok(u) = panic::catch_unwind(move || cur.update(vec![chc])) {
            let fresh = AnalyzedSource::new(u.text.clone());
            assert!(check(&fresh).is_empty(), "fresh tree broken {:?}", u.text);
            let bad = check(&u);
            if !bad.is_empty() { found += 1; let key = format!("{:?} -> {:?}", text, u.text); if seen.insert(key.clone()) && seen.len() <= 12 { println!("STALE {} {:?}", key, bad); } }
        } else { println!("PANIC {:?} {:?}", text, ch); }
    }
    println!("n={} stale={} distinct={}", n, found, seen.len());
}
