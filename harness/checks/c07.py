"""C07 — incremental lexing yields the batch token stream and an exact change window.
Oracle (evaluated in the adaptor on the real lexer::update / lexer::lex): tokens == lex(new_text), and for the window (d, n):
old[..d.start] == new[..d.start] and shift(old[d.end..]) == new[d.start+n..] (ranges *and* attached lexical errors)."""
import random
from ..core import Adaptor, Part, pmap, NCPU
from .. import gen, layout

ALPHABET = ["a", "i", "f", "0", "x", "1", "'", "/", "\n", " ", "<", "=", ":", "é", "\\", "n"]
FRAGS = ["proc ", "type ", "var ", "if", "else ", "while ", "array ", "of ", "ref ", "int", "x", "y", "main", "(", ")", "[", "]", "{", "}", ";", ":", ":=",
         "=", "#", "<", "<=", ">", ">=", "+", "-", "*", "/", ",", "0", "12", "0x1F", "0x", "'a'", "'", "'\\n'", "// c\n", "//", "// tail", " ", "\n", "  ", "ä", "€", "😀",
         "_", "1x", "\r\n", "\t", "4294967296", "0xFFFFFFFFF", "'\\", "\\n", "''", "'''",
         "\x0b", "\x0c", "\x85", "\xa0", "\u2028", "\u3000", "\ufeff", "\x0c ", " \xa0"]       # white space for Unicode but not for SPL; byte order mark


def worker_enum(args):
    shard, nshards, L, R = args
    ad = Adaptor(); part = Part()
    res = ad.call(op="c07enum", L=L, R=R, shard=shard, nshards=nshards, alphabet=ALPHABET, keep=3)
    ad.close()
    if "cases" not in res:
        part["inconclusive"].append("adaptor: %r" % (res,)); return part
    part.ev(res["cases"])
    part.cnt("enum_cases", res["cases"]); part.cnt("enum_kept_some_old_token", res["kept_some_old_token"])
    for d, i, c in res["shapes"]:
        part.add("window_shapes(deleted,inserted)", "%d,%d" % (d, i)); part.see(("shape", d, i))
    part.cnt("failures_total", res["bad"])
    for f in res["failures"]:
        part["failures"].append(("lexer::update on %r with change %r: %s" % (f.get("text"), f.get("change"), {k: v for k, v in f.items() if k not in ("text", "change")}),
                                 {"kind": "single", "text": f["text"], "change": f["change"]}))
    return part


def char_bounds(text):
    b = [0]; p = 0
    for ch in text:
        p += len(ch.encode()); b.append(p)
    return b


def rand_change(rng, text):
    b = char_bounds(text)
    i = rng.randrange(len(b))
    maxlen = rng.choice([0, 0, 1, 1, 2, 3, 8, 40])
    j = min(len(b) - 1, i + rng.randint(0, maxlen))
    k = rng.choice([0, 1, 1, 1, 2, 3])
    rep = "".join(rng.choice(FRAGS) for _ in range(k))
    if i == j and not rep: rep = rng.choice(FRAGS)
    return [b[i], b[j], rep]


def apply(text, ch):
    b = text.encode()
    return (b[:ch[0]] + ch[2].encode() + b[ch[1]:]).decode()


def worker_random(args):
    seed, n, chain = args
    rng = random.Random("C07/%s" % seed)
    ad = Adaptor(); part = Part()
    for it in range(n):
        if rng.random() < .7:
            P = gen.generate(rng.getrandbits(32), size=rng.choice([1, 2, 4]), depth=2)
            text = layout.layout(P, rng, eol=rng.choice(["\n", "\n", "\r\n"]), final=rng.choice([None, "", "\n"]))
        else:
            text = "".join(rng.choice(FRAGS) for _ in range(rng.randint(0, 40)))
        changes = []; t = text
        for _ in range(chain):
            ch = rand_change(rng, t); changes.append(ch); t = apply(t, ch)
        res = ad.call(op="lexchain", text=text, changes=changes)
        if "ok" not in res:
            part["inconclusive"].append("adaptor: %r" % (res,)); continue
        steps = len(res.get("windows", []))
        part.ev(max(1, steps))
        for w in res.get("windows", []):
            part.add("window_shapes(deleted,inserted)", "%d,%d" % (w[1] - w[0], w[2]))
            if w[0] > 0 and w[1] < w[3] - 1: part.see(("chain", w[1] - w[0], w[2], min(w[3], 50)))
        if not res["ok"]:
            k = res["step"]
            part.fail("lexer::update diverges at step %d of a chain: text %r change %r: %s" % (k, res["text"][:200], changes[k], res["failure"]),
                      {"kind": "chain", "text": text, "changes": changes[:k + 1]})
        elif it < 2:
            part.sample({"part": "chain", "text": text[:200], "changes": changes[:3], "windows": res["windows"][:3]}, 1)
    ad.close()
    return part


def miri_smoke(ctx):
    """attached layer: the adaptor's fixed self test (lexer updates + a parser update history) under Miri.
    An undefined-behaviour report is a violation; an unavailable/failed Miri setup is only noted."""
    import subprocess, os
    from ..core import VERIF, WORK
    env = dict(os.environ, CARGO_NET_OFFLINE="true", CARGO_TARGET_DIR=os.path.join(WORK, "target-miri"))
    try:
        p = subprocess.run(["cargo", "+nightly", "miri", "run", "--offline", "--", "--selftest", "12"], cwd=os.path.join(VERIF, "adaptor"), env=env, capture_output=True, text=True, timeout=1500)
    except Exception as e:
        ctx.extra["miri_smoke"] = "not run: %s" % e; return
    out = (p.stdout + p.stderr)
    if "Undefined Behavior" in out or "error: unsupported operation" in out and "selftest" not in out:
        ctx.violation("Miri reports undefined behaviour in code reached by lexer::update / parser::update: %s" % out[out.find("error"):][:800], {"kind": "miri", "log": out[-3000:]})
    elif p.returncode == 0 and "bad=0" in out:
        ctx.extra["miri_smoke"] = "passed: " + [l for l in out.split("\n") if l.startswith("selftest")][0]; ctx.count(15)
    elif "selftest" in out and "bad=" in out:
        ctx.violation("self test diverges under Miri: %s" % out[-300:], {"kind": "miri", "log": out[-3000:]})
    else:
        ctx.extra["miri_smoke"] = "inconclusive (exit %s): %s" % (p.returncode, out[-300:])


def run(ctx):
    L, R = (3, 1) if ctx.quick else (3, 2)
    parts = pmap(worker_enum, [(i, NCPU, L, R) for i in range(NCPU)])
    for p in parts: ctx.merge(p)
    enum = [{"L": L, "R": R, "cases": sum(p["counters"].get("enum_cases", 0) for p in parts), "complete": True}]
    if not ctx.quick:
        parts = pmap(worker_enum, [(i, NCPU * 4, 4, 2) for i in range(NCPU * 4)])
        for p in parts: ctx.merge(p)
        enum.append({"L": 4, "R": 2, "cases": sum(p["counters"].get("enum_cases", 0) for p in parts), "complete": True})
    ctx.extra["exhaustive_part"] = {"alphabet": ALPHABET, "enumerations": enum,
                                    "what": "all texts up to length L, every byte range on character boundaries, every replacement up to length R"}
    if not ctx.quick: miri_smoke(ctx)
    n = 500 if ctx.quick else 6000
    for p in pmap(worker_random, [("%s/%d" % (ctx.seed, i), n, 50) for i in range(NCPU)]): ctx.merge(p)
    ctx.sample({"part": "enumeration", "example": {"text": "a/", "change": [2, 2, "/"], "meaning": "typing the second slash turns `/` into a comment"}})
    ctx.rule = ("exhaustive: all texts of length <= L over a 16-symbol alphabet with a member of every look-ahead class x all ranges x all replacements of length <= R; "
                "random: generated programs and token soup x chains of 50 changes, each applied to the *updated* tokens of its predecessor; "
                "distinct_nontrivial = distinct (deleted tokens, inserted tokens[, stream length]) window shapes in which at least one old token was kept on both sides")
    ctx.assumptions = ["the batch lexer is the reference for the incremental one (it is tied to the lexical grammar by C06)"]
    ctx.floor("evaluations", ctx.evaluations, 500000)


def replay(ctx, sc):
    ad = Adaptor(); part = Part()
    if sc["kind"] == "single":
        res = ad.call(op="lexupd", text=sc["text"], change=sc["change"])
        part.ev()
        if not res.get("ok"): part.fail("lexer::update on %r with %r: %s" % (sc["text"], sc["change"], res.get("failure")), sc)
    else:
        res = ad.call(op="lexchain", text=sc["text"], changes=sc["changes"])
        part.ev(len(sc["changes"]))
        if not res.get("ok"): part.fail("chain diverges at step %s: %s" % (res.get("step"), res.get("failure")), sc)
    ctx.merge(part); ctx.see(1); ctx.see(2)
