"""C13 — find-references and rename cover exactly the occurrences of one binding.
Oracle: occurrence sets known by construction (one set per declaration / predefined entity); an independent edit applier;
twins (the renamed text opened fresh).  Observed at: references, rename, prepareRename, publishDiagnostics."""
import random
from ..core import Part, pmap, NCPU, server_bin
from ..client import ServerDied, Timeout, FrameError, tdp
from .. import gen, feat, lspmodel, reflex


def occurrences(P):
    occ = {}
    for t in feat.idents(P): occ.setdefault(feat.bkey(t.bind), []).append(t)
    return occ


def check_doc(part, sess, P, text, T, rng, max_ids, open_ids=frozenset()):
    uri = sess.open(text, "c13_")
    occ = occurrences(P)
    ids = feat.idents(P)
    pm = feat.proc_of_tokens(P)
    sample = ids if len(ids) <= max_ids else rng.sample(ids, max_ids)
    renamed = 0
    for tk in sample:
        b = tk.bind; key = feat.bkey(b)
        group = occ[key]
        loc = feat.shadowing_local(P, tk, pm)
        if loc is not None and "K-C13-1" in open_ids:
            # known class K-C13-1: a type-position identifier that is also the name of a local of the enclosing procedure is answered for
            # the local: references/rename return the local's occurrences. Checked as such (any other answer is a violation).
            l, c = rng.choice(feat.columns(rng, T, tk))
            p_ = tdp(uri, l, c); p_["context"] = {"includeDeclaration": True}
            res = sess.result("textDocument/references", p_); part.ev()
            got = sorted(feat.rkey(x["range"]) for x in res) if isinstance(res, list) else res
            want_true = sorted(feat.rkey(feat.rng_of(T, t)) for t in group if t is not tk)
            want_known = sorted(feat.rkey(feat.rng_of(T, t)) for t in occ[feat.bkey(loc)])
            if got == want_true: part.see(("references", "type", "shadowed-use"))
            elif got == want_known: part.known("K-C13-1", "known class"); part.add("known_classes_seen", "K-C13-1/references")
            else: part.fail("references on the type-position identifier %r (hidden by a local) at %d:%d returns %r; neither the type's occurrences %r nor the known wrong answer %r" % (tk.text, l, c, got, want_true, want_known),
                            {"kind": "references", "text": text, "line": l, "character": c, "expected": want_true})
            continue
        if isinstance(b, gen.Decl) and b.kind in ("var", "param") and b.proc is not None and b.name == b.proc.name and "K-C13-2" in open_ids:
            # known class K-C13-2: a parameter/local named like its own enclosing procedure is answered as if it were the procedure
            l, c = rng.choice(feat.columns(rng, T, tk))
            p_ = tdp(uri, l, c); p_["context"] = {"includeDeclaration": True}
            res = sess.result("textDocument/references", p_); part.ev()
            got = sorted(feat.rkey(x["range"]) for x in res) if isinstance(res, list) else res
            want_true = sorted(feat.rkey(feat.rng_of(T, t)) for t in group if t is not tk)
            want_known = sorted(feat.rkey(feat.rng_of(T, t)) for t in occ[feat.bkey(b.proc)] if t is not tk)
            if got == want_true: part.see(("references", "local-named-like-own-procedure"))
            elif got == want_known: part.known("K-C13-2", "known class"); part.add("known_classes_seen", "K-C13-2/references")
            else: part.fail("references on %r (local named like its own procedure) at %d:%d returns %r; neither the local's occurrences %r nor the known wrong answer %r" % (tk.text, l, c, got, want_true, want_known),
                            {"kind": "references", "text": text, "line": l, "character": c, "expected": want_true})
            continue
        l, c = rng.choice(feat.columns(rng, T, tk))
        kind = b.kind if isinstance(b, gen.Decl) else "predefined"
        cls = (kind, tk.role, min(len(group), 4))
        base = {"text": text, "line": l, "character": c, "identifier": tk.text, "binding": kind}
        # ---- references
        want = sorted(feat.rkey(feat.rng_of(T, t)) for t in group if t is not tk)
        p = tdp(uri, l, c); p["context"] = {"includeDeclaration": True}
        res = sess.result("textDocument/references", p); part.ev()
        sc = dict(base, kind="references", expected=want)
        if isinstance(res, dict) and "__error__" in res: part.fail("references on %r answers with an error %r" % (tk.text, res), sc)
        elif res is None or any(x.get("uri") != uri for x in res): part.fail("references on %r (%s) answers %r" % (tk.text, kind, res), sc)
        else:
            got = sorted(feat.rkey(x["range"]) for x in res)
            if got != want: part.fail("references on %r (%s, %s) at %d:%d returns %r, the other occurrences of the binding are %r" % (tk.text, kind, tk.role, l, c, got, want), sc)
            else: part.see(("references",) + cls)
        # ---- prepareRename <=> rename offered
        pr = sess.result("textDocument/prepareRename", tdp(uri, l, c)); part.ev()
        new = "zz_renamed"
        rp = tdp(uri, l, c); rp["newName"] = new
        rn = sess.result("textDocument/rename", rp); part.ev()
        sc = dict(base, kind="rename")
        if tk.text == "int":
            if pr is not None or rn is not None: part.fail("`int` must not be renamable: prepareRename %r, rename %r" % (pr, rn), sc)
            continue
        if pr != feat.rng_of(T, tk):
            part.fail("prepareRename on %r at %d:%d answers %r, the identifier is at %r" % (tk.text, l, c, pr, feat.rng_of(T, tk)), sc); continue
        if not isinstance(rn, dict) or "__error__" in rn or list((rn.get("changes") or {}).keys()) != [uri]:
            part.fail("rename on %r answers %r although prepareRename offers it" % (tk.text, rn), sc); continue
        edits_ = rn["changes"][uri]
        got = sorted(feat.rkey(e["range"]) for e in edits_)
        want = sorted(feat.rkey(feat.rng_of(T, t)) for t in group)
        if got != want or any(e["newText"] != new for e in edits_):
            part.fail("rename on %r (%s, %s) at %d:%d edits %r, the occurrences of the binding are %r" % (tk.text, kind, tk.role, l, c, got, want), dict(sc, expected=want)); continue
        part.see(("rename",) + cls)
        # ---- apply, re-open, rename back (declared entities other than main)
        if isinstance(b, gen.Decl) and b.name != "main" and renamed < 4:
            renamed += 1
            t2 = lspmodel.apply_edits(text, edits_)
            uri2 = sess.open(t2, "c13twin_")
            d2 = sess.server().diags(uri2); part.ev()
            if d2 != []:
                part.fail("after renaming %r (%s) to a fresh name the program gets diagnostics %r (it had none)" % (tk.text, kind, d2[:2]), dict(sc, renamed_text=t2)); sess.close(uri2); continue
            # the same occurrences are bound together again: references from the renamed occurrence
            T2 = feat.layout.Text(t2)
            lex2 = [x for x in reflex.lex(t2) if x[0] == "ident" and x[1] == new]
            if len(lex2) != len(group): part.fail("renamed text has %d occurrences of the new name, binding has %d" % (len(lex2), len(group)), dict(sc, renamed_text=t2))
            else:
                k, v, a, e = lex2[0]
                l2, c2 = T2.pos(a)
                p2 = tdp(uri2, l2, c2); p2["context"] = {"includeDeclaration": True}
                r2 = sess.result("textDocument/references", p2); part.ev()
                want2 = sorted(feat.rkey(T2.rng(a_, e_)) for _, _, a_, e_ in lex2[1:])
                if not isinstance(r2, list) or sorted(feat.rkey(x["range"]) for x in r2) != want2:
                    part.fail("in the renamed program references on the new name return %r, expected %r" % (r2, want2), dict(sc, renamed_text=t2))
                rb = tdp(uri2, l2, c2); rb["newName"] = tk.text
                back = sess.result("textDocument/rename", rb); part.ev()
                if not isinstance(back, dict) or "__error__" in back or not back.get("changes"):
                    part.fail("renaming back answers %r" % (back,), dict(sc, renamed_text=t2))
                else:
                    t3 = lspmodel.apply_edits(t2, back["changes"][uri2])
                    if t3 != text: part.fail("rename to a fresh name and back does not restore the original text (first difference at %d)" % next((i for i, (x, y) in enumerate(zip(t3, text)) if x != y), -1), dict(sc, renamed_text=t2))
                    else: part.see(("roundtrip",) + cls); part.cnt("rename_round_trips")
            sess.close(uri2)
    # non-identifier positions: prepareRename and rename agree on "nothing"
    others = [t for t in P.toks if t.kind in ("kw", "sym", "int")]
    for tk in rng.sample(others, min(3, len(others))):
        l, c = T.pos(tk.start)
        pr = sess.result("textDocument/prepareRename", tdp(uri, l, c)); rp = tdp(uri, l, c); rp["newName"] = "q"; rn = sess.result("textDocument/rename", rp); part.ev()
        if pr is not None or rn is not None: part.fail("on the %s token %r prepareRename answers %r and rename %r" % (tk.kind, tk.text, pr, rn), {"kind": "rename", "text": text, "line": l, "character": c})
    sess.close(uri)


def worker(args):
    seed, nprog, max_ids, open_ids = args
    rng = random.Random("C13/%s" % seed)
    part = Part(); sess = feat.Session()
    for it in range(nprog):
        P, text, T = feat.program(rng, edepth=rng.choice([2, 3]))
        try:
            check_doc(part, sess, P, text, T, rng, max_ids, open_ids)
            if it == 0: part.sample({"part": "references/rename", "text": text[:300]}, 1)
        except (ServerDied, Timeout, FrameError) as e:
            feat.died(part, e, "references/rename request", {"kind": "doc", "text": text}, sess)
    feat.report(part)
    sess.kill()
    return part


def run(ctx):
    server_bin("rel")
    nprog, mi = (90, 25) if ctx.quick else (1200, 60)
    open_ids = frozenset(f["id"] for f in ctx.open_findings())
    replay_witnesses(ctx)
    for p in pmap(worker, [("%s/%d" % (ctx.seed, i), nprog, mi, open_ids) for i in range(NCPU)]): ctx.merge(p)
    ctx.rule = ("well-typed generated programs with variables used inside parentheses, after unary minus, inside index expressions, as arguments, in conditions and as assignment targets, "
                "identifiers preceded by comments, equal names in several procedures; every sampled identifier: references, prepareRename, rename; for declared entities rename -> apply -> "
                "re-open (no diagnostics) -> references on the new name -> rename back = original text; distinct_nontrivial = distinct (request, binding kind, role, group size) classes")
    ctx.assumptions = ["occurrence sets come from the generator's bindings", "`main` and predefined entities are exempt from the apply/round-trip part (renaming them is a semantic change)"]
    ctx.floor("evaluations", ctx.evaluations, 4000)
    ctx.floor("rename round trips", ctx.extra.get("counters", {}).get("rename_round_trips", 0), 200)


def replay_witnesses(ctx):
    import json, os
    from ..core import VERIF
    sess = feat.Session()
    for f in ctx.open_findings():
        w = json.load(open(os.path.join(VERIF, f["witness"])))["scenario"]
        try:
            uri = sess.open(w["text"], "c13w_")
            p = tdp(uri, w["line"], w["character"]); p["context"] = {"includeDeclaration": True}
            res = sess.result("textDocument/references", p); ctx.count(); sess.close(uri)
            got = sorted(feat.rkey(x["range"]) for x in res) if isinstance(res, list) else res
            if got != [tuple(x) for x in w["expected"]]: ctx.known(f["id"], f["what"])
            else: ctx.extra.setdefault("witnesses_no_longer_failing", []).append(f["id"])
        except (ServerDied, Timeout, FrameError):
            ctx.known(f["id"], f["what"]); sess.kill()
    sess.kill()


def replay(ctx, sc):
    part = Part(); sess = feat.Session()
    try:
        uri = sess.open(sc["text"], "c13r_")
        if sc["kind"] == "references":
            p = tdp(uri, sc["line"], sc["character"]); p["context"] = {"includeDeclaration": True}
            res = sess.result("textDocument/references", p); part.ev()
            got = sorted(feat.rkey(x["range"]) for x in res) if isinstance(res, list) else res
            if got != [tuple(x) for x in sc["expected"]]: part.fail("references returns %r, expected %r" % (got, sc["expected"]), sc)
        elif sc["kind"] == "rename" and "expected" in sc:
            rp = tdp(uri, sc["line"], sc["character"]); rp["newName"] = "zz_renamed"
            rn = sess.result("textDocument/rename", rp); part.ev()
            got = sorted(feat.rkey(e["range"]) for e in rn["changes"][uri]) if isinstance(rn, dict) and rn.get("changes") else rn
            if got != [tuple(x) for x in sc["expected"]]: part.fail("rename edits %r, expected %r" % (got, sc["expected"]), sc)
        else:
            part["inconclusive"].append("scenario kind without stored expectation; re-run the check instead")
    except (ServerDied, Timeout, FrameError) as e:
        feat.died(part, e, "replay", sc, sess)
    sess.kill(); ctx.merge(part); ctx.see(1); ctx.see(2)
