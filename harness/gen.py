"""Grammar-directed generator of SPL programs with ground truth.

The generator *is* the grammar (written from the SPL specification): it builds the
derivation tree first and the tokens from it, so the structure, the binding of every
identifier, the type of every entity and the grammar position of every token gap are
known by construction and do not come from the code under test.

  Tok   one lexeme; `lead` = comment tokens written in the gap before it, `pre` = the
        white space directly before it (assigned by layout.py)
  Node  one derivation node; `parts` is the ordered list of Tok / Node it derives
"""
import random

KEYWORDS = ("if", "else", "while", "array", "of", "proc", "ref", "type", "var")
# predefined procedures of SPL: name -> [is_ref per parameter]  (all parameters are int)
BUILTINS = {
    "printi": [False], "printc": [False], "readi": [True], "readc": [True], "exit": [],
    "time": [True], "clearAll": [False], "setPixel": [False, False, False],
    "drawLine": [False] * 5, "drawCircle": [False] * 4,
}
ARITH = ("+", "-", "*", "/")
COMPARE = ("=", "#", "<", "<=", ">", ">=")
OPNAME = {"+": "Add", "-": "Sub", "*": "Mul", "/": "Div", "=": "Equ", "#": "Neq",
          "<": "Lst", "<=": "Lse", ">": "Grt", ">=": "Gre"}


class IntT:
    def __eq__(s, o): return isinstance(o, IntT)
    def __hash__(s): return 1
    def show(s): return "int"


class ArrT:
    """array type; `creator` is the declaration that wrote the `array [n] of` (name equivalence)"""
    def __init__(s, size, base, creator): s.size, s.base, s.creator = size, base, creator
    def __eq__(s, o): return isinstance(o, ArrT) and s.creator is o.creator and s.size == o.size and s.base == o.base
    def __hash__(s): return hash(id(s.creator))
    def show(s): return "array [%d] of %s" % (s.size, s.base.show())


INT = IntT()


class Tok:
    __slots__ = ("kind", "text", "val", "role", "bind", "lead", "pre", "idx", "start", "end", "path", "uid", "depth")
    _n = 0

    def __init__(s, kind, text, val=None, role=None, bind=None):
        s.kind, s.text, s.val, s.role, s.bind = kind, text, val, role, bind
        s.lead = []      # comment Toks in the gap before this token
        s.pre = None     # white space directly before this token (layout)
        s.idx = s.start = s.end = None
        s.path = None    # tuple of (node kind, part index) from the root to this token
        s.depth = None   # nesting depth (set by fmt.set_depths)
        Tok._n += 1; s.uid = Tok._n

    def __repr__(s): return "%s:%r" % (s.kind, s.text)


class Node:
    def __init__(s, kind, parts=None, **f):
        s.kind = kind; s.parts = parts if parts is not None else []
        s.a = s.b = None    # flat token span [a, b) incl. the comments before the first token
        s.depth = 0
        s.__dict__.update(f)

    def __repr__(s): return "<%s %s..%s>" % (s.kind, s.a, s.b)


class Decl:
    """ground truth about one declared entity"""
    def __init__(s, kind, name, node=None, ty=None, is_ref=False, proc=None):
        s.kind, s.name, s.node, s.ty, s.is_ref, s.proc = kind, name, node, ty, is_ref, proc
        s.name_tok = None; s.params = []; s.locals = []
        s.type_ref = None   # the named type declaration used directly as this entity's type (or None)
        s.creator_type = None  # the *type declaration* that created this entity's array type (or None)

    def doc_toks(s): return first_tok(s.node).lead

    def __repr__(s): return "<%s %s>" % (s.kind, s.name)


def first_tok(n):
    while isinstance(n, Node): n = n.parts[0]
    return n


def last_tok(n):
    while isinstance(n, Node): n = n.parts[-1]
    return n


def walk_toks(n):
    """tokens of a node in order, lead comments included"""
    if isinstance(n, Tok):
        for c in n.lead: yield c
        yield n
    else:
        for p in n.parts:
            yield from walk_toks(p)


def walk_nodes(n, depth=0):
    """pre-order nodes"""
    if isinstance(n, Node):
        yield n
        for p in n.parts:
            yield from walk_nodes(p)


def kw(w): return Tok("kw", w)
def sym(w): return Tok("sym", w)


STMT_KINDS = ("Assign", "Call", "If", "While", "Block", "Empty")


class Program:
    def __init__(s):
        s.root = Node("Program"); s.types = []; s.procs = []; s.trail = []   # trail: comments after the last token
        s.toks = []; s.calls = []

    # ---- indexing: flat token list, spans, paths
    def index(s):
        toks = []
        def rec(n, path):
            if isinstance(n, Tok):
                for c in n.lead:
                    c.idx = len(toks); c.path = path; toks.append(c)
                n.idx = len(toks); n.path = path; toks.append(n)
                return
            a = len(toks)
            for i, p in enumerate(n.parts):
                rec(p, path + ((n.kind, i),))
            n.a, n.b = a, len(toks)
        rec(s.root, ())
        for c in s.trail:
            c.idx = len(toks); c.path = (("Program", len(s.root.parts)),); toks.append(c)
        s.toks = toks
        return toks

    def decls(s):
        for d in s.types: yield d
        for p in s.procs:
            yield p
            for q in p.params: yield q
            for v in p.locals: yield v

    def statements(s):
        """(stmt node, proc decl, parent node, is_list_element, depth) for every statement, pre-order"""
        out = []
        def rec(n, proc, parent, in_list, depth):
            out.append((n, proc, parent, in_list, depth))
            if n.kind == "Block":
                for c in n.stmts: rec(c, proc, n, True, depth + 1)
            elif n.kind == "If":
                rec(n.then, proc, n, False, depth + 1)
                if n.els is not None: rec(n.els, proc, n, False, depth + 1)
            elif n.kind == "While":
                rec(n.body, proc, n, False, depth + 1)
        for p in s.procs:
            for st in p.node.stmts: rec(st, p, p.node, True, 1)
        return out


class Gen:
    """opts: size (declarations), depth (statement nesting), edepth (expression depth), typed (well-typed only),
    docs / stmt_comments (probabilities), shadow, forward (forward calls), lits (all literal forms)"""
    LOCALS = ["i", "j", "k", "n", "tmp", "acc", "arr", "idx", "val", "x", "y"]

    def __init__(s, rng, size=3, depth=2, edepth=2, typed=True, docs=.3, stmt_comments=.1, shadow=.15,
                 forward=True, lits=True, nonascii=True, max_stmts=None):
        s.r = rng; s.size, s.depth, s.edepth, s.typed = size, depth, edepth, typed
        s.p_docs, s.p_stmtc, s.p_shadow, s.forward, s.lits, s.nonascii = docs, stmt_comments, shadow, forward, lits, nonascii
        s.max_stmts = max_stmts if max_stmts is not None else size
        s.P = Program(); s.n = 0; s.cur = None; s.ncomment = 0; s.type_pool = None; s.in_body = False

    def fresh(s, prefix):
        s.n += 1; return "%s%d" % (prefix, s.n)

    def comment(s, what="note"):
        s.ncomment += 1
        body = s.r.choice(["doc", "describes it", "x := 1;", "TODO fix", "if (a) {", "first a, then b, c", "f(x, y);"] + (["näme ünicode", "€uro 😀 ok"] if s.nonascii else []))
        if s.r.random() < .04: body += "\rj := 2; 'x"      # a lone CR does not end a comment (only LF does): still comment text
        return Tok("comment", "// %s %s %d" % (what, body, s.ncomment))

    # ---- declarations
    def program(s):
        r = s.r; P = s.P
        ntypes = r.randint(0, s.size); nprocs = r.randint(1, s.size + 1)
        order = ["type"] * ntypes + ["proc"] * nprocs
        r.shuffle(order)
        main_at = r.randrange(nprocs); pi = 0
        heads = []
        for what in order:            # phase A: type declarations and procedure headers, in source order
            if what == "type":
                heads.append(s.type_decl())
            else:
                heads.append(s.proc_head("main" if pi == main_at else s.fresh("p"), pi == main_at)); pi += 1
        for d in heads:               # phase B: bodies; every procedure is visible (forward calls)
            if d.kind == "proc": s.proc_body(d)
        P.root.parts = [d.node for d in heads]
        P.root.decls = heads
        P.index()
        return P

    def maybe_doc(s, tok, what="doc"):
        if s.r.random() < s.p_docs:
            for _ in range(s.r.randint(1, 2)): tok.lead.append(s.comment(what))

    def type_expr(s, creator, depth=0):
        """returns (node, Ty, named type decl or None)"""
        r = s.r
        pool = s.type_pool if s.type_pool is not None else s.P.types
        if s.cur is not None and s.in_body:
            pool = [t for t in pool if t.name not in s.cur.names]    # a local of that name hides the type (locals are looked up first)
        choices = ["int"]
        if pool: choices += ["named", "named"]
        if depth < 2: choices += ["array"]
        c = r.choice(choices)
        if c == "int":
            t = Tok("id", "int", role="use", bind="builtin:int")
            return Node("NamedType", [t], name=t), INT, None
        if c == "named":
            d = r.choice(pool)
            t = Tok("id", d.name, role="use", bind=d)
            return Node("NamedType", [t], name=t), d.ty, d
        n = r.randint(1, 9)
        size = s.intlit(n, forms=("dec", "dec", "hex") if s.lits else ("dec",))
        base, bty, _ = s.type_expr(creator, depth + 1)
        node = Node("ArrayType", [kw("array"), sym("["), size, sym("]"), kw("of"), base], size=size, base=base)
        return node, ArrT(n, bty, creator), None

    def type_decl(s):
        name = s.fresh("T"); d = Decl("type", name)
        k = kw("type"); s.maybe_doc(k)
        nt = Tok("id", name, role="decl", bind=d); d.name_tok = nt
        te, d.ty, d.type_ref = s.type_expr(d)
        ident = Node("Ident", [nt], name=nt)
        d.node = Node("TypeDecl", [k, ident, sym("="), te, sym(";")], decl=d, name=ident, type_expr=te)
        d.creator_type = creator_type_of(d.ty)
        s.P.types.append(d)
        return d

    def proc_head(s, name, is_main):
        r = s.r; d = Decl("proc", name)
        k = kw("proc"); s.maybe_doc(k)
        nt = Tok("id", name, role="decl", bind=d); d.name_tok = nt
        d.names = set()
        params = []; parts = []
        if not is_main:
            for i in range(r.randint(0, 3)):
                pname = s.local_name(d, "a")
                p = Decl("param", pname, proc=d)
                te, ty, tref = s.type_expr(p)
                want_ref = r.random() < .4 or isinstance(ty, ArrT)
                pt = Tok("id", pname, role="decl", bind=p); p.name_tok = pt
                ident = Node("Ident", [pt], name=pt)
                pp = ([kw("ref")] if want_ref else []) + [ident, sym(":"), te]
                p.ty, p.type_ref, p.is_ref = ty, tref, want_ref
                p.creator_type = creator_type_of(ty)
                p.node = Node("Param", pp, decl=p, name=ident, type_expr=te, is_ref=want_ref)
                s.maybe_doc(first_tok(p.node), "pdoc")
                if i: parts.append(sym(","))
                parts.append(p.node); params.append(p)
        d.params = params
        d.lparen, d.rparen, d.lcurly, d.rcurly = sym("("), sym(")"), sym("{"), sym("}")
        ident = Node("Ident", [nt], name=nt)
        d.node = Node("ProcDecl", [k, ident, d.lparen] + parts + [d.rparen, d.lcurly, d.rcurly], decl=d, name=ident,
                      params=[p.node for p in params], vars=[], stmts=[])
        d.head_len = len(d.node.parts) - 1
        d.visible_types = list(s.P.types)     # types declared before this procedure (a type must be declared before its use)
        s.P.procs.append(d)
        return d

    def local_name(s, proc, prefix):
        r = s.r
        if r.random() < s.p_shadow and len(s.P.procs) > 0:
            # a local that hides a global procedure (legal; that procedure is then not callable here)
            cand = [p.name for p in s.P.procs if p.name not in proc.names and p is not proc] + [b for b in ("printi", "readi") if b not in proc.names]
            # ... or a global type (the type is then not usable in later variable declarations of this procedure)
            cand += [t.name for t in (getattr(proc, "visible_types", None) or s.P.types) if t.name not in proc.names]
            # ... or the enclosing procedure itself (it can then not call itself)
            if proc.name not in proc.names: cand += [proc.name]
            if cand:
                n = r.choice(cand); proc.names.add(n); return n
        for _ in range(20):
            n = r.choice(s.LOCALS) + r.choice(["", "", "1", "2"])
            if n not in proc.names: proc.names.add(n); return n
        n = s.fresh(prefix); proc.names.add(n); return n

    def proc_body(s, d):
        r = s.r; s.cur = d
        s.type_pool = d.visible_types; s.in_body = True
        vars_ = []
        for i in range(r.randint(0, 3)):
            vname = s.local_name(d, "v")
            v = Decl("var", vname, proc=d)
            k = kw("var"); s.maybe_doc(k, "vdoc")
            vt = Tok("id", vname, role="decl", bind=v); v.name_tok = vt
            te, v.ty, v.type_ref = s.type_expr(v)
            v.creator_type = creator_type_of(v.ty)
            ident = Node("Ident", [vt], name=vt)
            v.node = Node("VarDecl", [k, ident, sym(":"), te, sym(";")], decl=v, name=ident, type_expr=te)
            d.locals.append(v); vars_.append(v.node)
        stmts = [s.stmt(s.depth) for _ in range(r.randint(0, s.max_stmts))]
        n = d.node
        n.vars, n.stmts = vars_, stmts
        n.parts = n.parts[:d.head_len] + vars_ + stmts + [d.rcurly]
        s.type_pool = None; s.in_body = False

    # ---- expressions
    def intlit(s, n=None, forms=None):
        r = s.r
        if n is None: n = r.choice([0, 1, 2, 7, 10, 42, 255, 300, r.randint(0, 300), r.randint(0, 2 ** 31)])
        if forms is None: forms = ("dec", "dec", "dec", "hex", "char") if s.lits else ("dec",)
        form = r.choice(forms)
        if form == "char" and not (32 <= n < 127 and chr(n) not in "'\\"): form = "dec"
        if form == "dec": text = str(n) if r.random() < .9 or not s.lits else "0" * r.randint(1, 2) + str(n)
        elif form == "hex": text = ("0x%X" if r.random() < .5 else "0x%x") % n
        else: text = "'%s'" % chr(n)
        if form == "dec" and text.startswith("0x"): text = str(n)
        t = Tok("int", text, val=n)
        return Node("IntLit", [t], tok=t, value=n)

    def scope_vars(s): return s.cur.params + s.cur.locals

    def visible(s, name):
        """what `name` denotes inside the current procedure (locals hide globals)"""
        for v in s.scope_vars():
            if v.name == name: return v
        for p in s.P.procs:
            if p.name == name: return p
        for t in s.P.types:
            if t.name == name: return t
        return None

    def variable(s, want, edepth):
        """variable expression of exactly type `want`, indexing arrays as needed; None if impossible"""
        if not s.typed:
            # syntax only: any name, any number of index brackets
            r = s.r
            names = [v.name for v in s.scope_vars()] + ["undef", "T1", "main", "q_q"]
            nm = r.choice(names)
            t = Tok("id", nm, role="use", bind=s.visible(nm))
            node = Node("NamedVar", [t], name=t)
            for _ in range(r.choice([0, 0, 1, 2, 4]) if edepth > 0 else 0):
                ix = s.expr(max(0, edepth - 1)) if r.random() < .8 else s.comp(0)
                node = Node("ArrayAccess", [node, sym("["), ix, sym("]")], array=node, index=ix)
            return node
        c = []
        for v in s.scope_vars():
            ty = v.ty; k = 0
            while True:
                if ty == want: c.append((v, k)); break
                if isinstance(ty, ArrT): ty = ty.base; k += 1
                else: break
        if edepth <= 0:
            c = [x for x in c if x[1] == 0]     # no index expressions at depth 0 (bounds the recursion)
        if not c: return None
        v, k = s.r.choice(c)
        t = Tok("id", v.name, role="use", bind=v)
        node = Node("NamedVar", [t], name=t)
        for _ in range(k):
            ix = s.expr(max(0, edepth - 1))
            node = Node("ArrayAccess", [node, sym("["), ix, sym("]")], array=node, index=ix)
        return node

    def expr(s, d):
        """int-valued expression: Add level of the grammar"""
        return s.add(d)

    def add(s, d):
        r = s.r
        left = s.mul(d)
        k = 0 if d <= 0 else r.choice([0, 0, 0, 1, 1, 2])
        for _ in range(k):
            o = sym(r.choice("+-")); right = s.mul(d - 1)
            left = Node("Binary", [left, o, right], op=o.text, lhs=left, rhs=right)
        return left

    def mul(s, d):
        r = s.r
        left = s.factor(d)
        k = 0 if d <= 0 else r.choice([0, 0, 0, 1, 1, 2])
        for _ in range(k):
            o = sym(r.choice("*/")); right = s.factor(d - 1)
            left = Node("Binary", [left, o, right], op=o.text, lhs=left, rhs=right)
        return left

    def factor(s, d):
        r = s.r
        if d > 0 and r.random() < .15:
            o = sym("-"); e = s.factor(d - 1)
            return Node("Unary", [o, e], expr=e)
        return s.primary(d)

    def primary(s, d):
        r = s.r; c = r.random()
        if c < .45:
            v = s.variable(INT, d)
            if v is not None: return v
        if d > 0 and c > .8:
            e = s.add(d - 1) if s.typed else s.comp(d - 1)
            return Node("Paren", [sym("("), e, sym(")")], expr=e)
        return s.intlit()

    def comp(s, d):
        left = s.add(d); o = sym(s.r.choice(COMPARE)); right = s.add(d)
        return Node("Binary", [left, o, right], op=o.text, lhs=left, rhs=right)

    # ---- statements
    def stmt(s, depth, kinds=None):
        r = s.r
        if kinds is None:
            kinds = ["assign", "assign", "call", "call", "empty"]
            if depth > 0: kinds += ["if", "ifelse", "while", "block", "if_noblock", "elseif"]
        k = r.choice(kinds)
        n = s._stmt(k, depth)
        if r.random() < s.p_stmtc:
            first_tok(n).lead.append(s.comment("stmt"))
        return n

    def block(s, depth):
        stmts = [s.stmt(depth) for _ in range(s.r.randint(0, 3))]
        return Node("Block", [sym("{")] + stmts + [sym("}")], stmts=stmts)

    def branch(s, depth, p_block=.75):
        return s.block(depth) if s.r.random() < p_block else s.stmt(0)

    def _stmt(s, k, depth):
        r = s.r
        if k == "empty":
            return Node("Empty", [sym(";")])
        if k == "assign":
            v = s.variable(INT, 1)
            if v is None: return Node("Empty", [sym(";")])
            e = s.expr(s.edepth) if s.typed or r.random() < .8 else s.comp(s.edepth)
            return Node("Assign", [v, sym(":="), e, sym(";")], target=v, expr=e)
        if k == "call":
            return s.call()
        if k in ("if", "ifelse", "if_noblock", "elseif"):
            c = s.comp(1) if s.typed or r.random() < .8 else s.expr(2)
            head = [kw("if"), sym("("), c, sym(")")]
            if k == "if":
                t = s.block(depth - 1); return Node("If", head + [t], cond=c, then=t, els=None)
            if k == "ifelse":
                t = s.block(depth - 1); e = s.branch(depth - 1)
                return Node("If", head + [t, kw("else"), e], cond=c, then=t, els=e)
            if k == "elseif":
                t = s.block(depth - 1); e = s._stmt(r.choice(["if", "ifelse", "elseif"] if depth > 1 else ["if"]), depth - 1)
                return Node("If", head + [t, kw("else"), e], cond=c, then=t, els=e)
            # unbraced branches; the `then` branch must not be an else-less `if` when an else follows (dangling else)
            if r.random() < .5:
                t = s.stmt(0, ["assign", "call", "empty"]); e = s.stmt(0, ["assign", "call", "empty"])
                return Node("If", head + [t, kw("else"), e], cond=c, then=t, els=e)
            t = s.stmt(0, ["assign", "call", "empty"])
            return Node("If", head + [t], cond=c, then=t, els=None)
        if k == "while":
            c = s.comp(1); b = s.branch(depth - 1, .8)
            return Node("While", [kw("while"), sym("("), c, sym(")"), b], cond=c, body=b)
        if k == "block":
            return s.block(depth - 1)
        raise ValueError(k)

    def call(s):
        r = s.r
        cands = [p for p in (s.P.procs if s.forward else s.P.procs[:s.P.procs.index(s.cur) + 1]) if s.visible(p.name) is p]
        builtins = [b for b in BUILTINS if s.visible(b) is None]
        use_builtin = (r.random() < .3 or not cands) and builtins
        if use_builtin:
            name = r.choice(builtins); sig = [(INT, isref) for isref in BUILTINS[name]]; callee = "builtin:" + name
        elif cands:
            p = r.choice(cands); name = p.name; sig = [(q.ty, q.is_ref) for q in p.params]; callee = p
        else:
            return Node("Empty", [sym(";")])
        if not s.typed:
            sig = [(INT, False)] * r.choice([0, 1, 1, 2, 3, 5])
        nt = Tok("id", name, role="use", bind=callee)
        lp, rp = sym("("), sym(")")
        parts = [Node("Ident", [nt], name=nt), lp]; args = []; commas = []
        for i, (ty, isref) in enumerate(sig):
            if isref or isinstance(ty, ArrT):
                a = s.variable(ty, 1)
                if a is None: return Node("Empty", [sym(";")])
            else:
                a = s.expr(s.edepth) if s.typed or r.random() < .8 else s.comp(1)
            if i:
                c = sym(","); commas.append(c); parts.append(c)
            parts.append(a); args.append(a)
        parts += [rp, sym(";")]
        n = Node("Call", parts, name=parts[0], args=args, lparen=lp, rparen=rp, commas=commas, callee=callee, proc=s.cur)
        s.P.calls.append(n)
        return n


def creator_type_of(ty):
    """the type declaration that created an array type, or None (int, or an anonymous array written at the entity itself)"""
    if isinstance(ty, ArrT) and isinstance(ty.creator, Decl) and ty.creator.kind == "type":
        return ty.creator
    return None


def generate(seed, **kw):
    rng = random.Random(seed)
    return Gen(rng, **kw).program()


# ---------------------------------------------------------------- rendering of signatures (independent of the Display impls)
def show_var(d):
    return ("ref " if d.is_ref else "") + d.name + ": " + d.ty.show()


def show_proc(d):
    return "proc %s(%s)" % (d.name, ", ".join(show_var(p) for p in d.params))


def signature(d):
    if d.kind == "proc": return show_proc(d)
    if d.kind == "type": return d.ty.show()
    return show_var(d)


# ---------------------------------------------------------------- expected syntax tree (for C04)
def expected_tree(P):
    """pre-order list of [kind, a, b, attr] in the vocabulary of the adaptor's tree dump.
    Span rule of the SPL front end: a node covers its tokens plus the comments directly before its first token;
    comments before a declaration are its documentation and not part of its name."""
    out = []

    def span(n, skip_doc=False):
        a = n.a
        if skip_doc: a = first_tok(n).idx
        return a, n.b

    def docs(n): return [c.text[2:] for c in first_tok(n).lead]

    def ident(n, skip_doc=False):
        a, b = span(n, skip_doc); out.append(["Identifier", a, b, n.name.text])

    def texpr(n):
        if n.kind == "NamedType":
            out.append(["NamedType", n.a, n.b, n.name.text])
        else:
            out.append(["ArrayType", n.a, n.b, None]); out.append(["IntLiteral", n.size.a, n.size.b, n.size.value]); texpr(n.base)

    def expr(n):
        k = n.kind
        if k == "IntLit": out.append(["IntLiteral", n.a, n.b, n.value])
        elif k == "NamedVar": out.append(["NamedVariable", n.a, n.b, n.name.text])
        elif k == "ArrayAccess": out.append(["ArrayAccess", n.a, n.b, None]); expr(n.array); expr(n.index)
        elif k == "Binary": out.append(["Binary", n.a, n.b, OPNAME[n.op]]); expr(n.lhs); expr(n.rhs)
        elif k == "Unary": out.append(["Unary", n.a, n.b, "Sub"]); expr(n.expr)
        elif k == "Paren": out.append(["Bracketed", n.a, n.b, None]); expr(n.expr)
        else: raise ValueError(k)

    def stmt(n):
        k = n.kind
        if k == "Empty": out.append(["Empty", n.a, n.b, None])
        elif k == "Assign": out.append(["Assignment", n.a, n.b, None]); expr(n.target); expr(n.expr)
        elif k == "Call":
            out.append(["Call", n.a, n.b, None]); ident(n.name)
            for a in n.args: expr(a)
        elif k == "If":
            out.append(["If", n.a, n.b, None]); expr(n.cond); stmt(n.then)
            if n.els is not None: stmt(n.els)
        elif k == "While": out.append(["While", n.a, n.b, None]); expr(n.cond); stmt(n.body)
        elif k == "Block":
            out.append(["Block", n.a, n.b, None])
            for c in n.stmts: stmt(c)
        else: raise ValueError(k)

    for d in P.root.parts:
        if d.kind == "TypeDecl":
            out.append(["TypeDeclaration", d.a, d.b, docs(d)]); ident(d.name); texpr(d.type_expr)
        else:
            out.append(["ProcedureDeclaration", d.a, d.b, docs(d)]); ident(d.name)
            for p in d.params:
                out.append(["Parameter", p.a, p.b, [p.is_ref, docs(p)]])
                ident(p.name, skip_doc=not p.is_ref); texpr(p.type_expr)
            for v in d.vars:
                out.append(["Variable", v.a, v.b, docs(v)]); ident(v.name); texpr(v.type_expr)
            for st in d.stmts: stmt(st)
    return out


# ---------------------------------------------------------------- hand builders (fault injection, edits, special shapes)
def mk_name(name, bind=None, role="use"):
    t = Tok("id", name, role=role, bind=bind)
    return t


def mk_var(name, bind=None):
    t = mk_name(name, bind); return Node("NamedVar", [t], name=t)


def mk_int(n, text=None):
    t = Tok("int", text if text is not None else str(n), val=n); return Node("IntLit", [t], tok=t, value=n)


def mk_bin(l, op, r):
    return Node("Binary", [l, sym(op), r], op=op, lhs=l, rhs=r)


def mk_paren(e): return Node("Paren", [sym("("), e, sym(")")], expr=e)


def mk_unary(e): return Node("Unary", [sym("-"), e], expr=e)


def mk_index(v, e): return Node("ArrayAccess", [v, sym("["), e, sym("]")], array=v, index=e)


def mk_assign(v, e): return Node("Assign", [v, sym(":="), e, sym(";")], target=v, expr=e)


def mk_empty(): return Node("Empty", [sym(";")])


def mk_call(name, args, callee=None, proc=None):
    nt = mk_name(name, callee); ident = Node("Ident", [nt], name=nt)
    lp, rp = sym("("), sym(")"); parts = [ident, lp]; commas = []
    for i, a in enumerate(args):
        if i:
            c = sym(","); commas.append(c); parts.append(c)
        parts.append(a)
    parts += [rp, sym(";")]
    return Node("Call", parts, name=ident, args=list(args), lparen=lp, rparen=rp, commas=commas, callee=callee, proc=proc)


def mk_block(stmts): return Node("Block", [sym("{")] + list(stmts) + [sym("}")], stmts=list(stmts))


def mk_if(cond, then, els=None):
    parts = [kw("if"), sym("("), cond, sym(")"), then] + ([kw("else"), els] if els is not None else [])
    return Node("If", parts, cond=cond, then=then, els=els)


def mk_while(cond, body): return Node("While", [kw("while"), sym("("), cond, sym(")"), body], cond=cond, body=body)


def mk_named_type(name, bind=None):
    t = mk_name(name, bind); return Node("NamedType", [t], name=t)


def mk_array_type(n, base):
    size = mk_int(n); return Node("ArrayType", [kw("array"), sym("["), size, sym("]"), kw("of"), base], size=size, base=base)


def mk_typedecl(name, te, ty=None):
    d = Decl("type", name, ty=ty); nt = mk_name(name, d, "decl"); d.name_tok = nt; ident = Node("Ident", [nt], name=nt)
    d.node = Node("TypeDecl", [kw("type"), ident, sym("="), te, sym(";")], decl=d, name=ident, type_expr=te)
    return d


def mk_param(name, te, is_ref=False, ty=None, proc=None):
    p = Decl("param", name, ty=ty, is_ref=is_ref, proc=proc); pt = mk_name(name, p, "decl"); p.name_tok = pt; ident = Node("Ident", [pt], name=pt)
    p.node = Node("Param", ([kw("ref")] if is_ref else []) + [ident, sym(":"), te], decl=p, name=ident, type_expr=te, is_ref=is_ref)
    return p


def mk_vardecl(name, te, ty=None, proc=None):
    v = Decl("var", name, ty=ty, proc=proc); vt = mk_name(name, v, "decl"); v.name_tok = vt; ident = Node("Ident", [vt], name=vt)
    v.node = Node("VarDecl", [kw("var"), ident, sym(":"), te, sym(";")], decl=v, name=ident, type_expr=te)
    return v


def rebuild_proc(d):
    """recompute the parts of a procedure node from its params / vars / stmts"""
    n = d.node
    head = [n.parts[0], n.name, d.lparen]
    for i, p in enumerate(d.params):
        if i: head.append(sym(","))
        head.append(p.node)
    head += [d.rparen, d.lcurly]
    d.head_len = len(head)
    n.params = [p.node for p in d.params]
    n.parts = head + n.vars + n.stmts + [d.rcurly]


def mk_proc(name, params=(), vars_=(), stmts=()):
    d = Decl("proc", name); nt = mk_name(name, d, "decl"); d.name_tok = nt; ident = Node("Ident", [nt], name=nt)
    d.params = list(params); d.locals = list(vars_); d.names = set(x.name for x in d.params + d.locals)
    for x in d.params + d.locals: x.proc = d
    d.lparen, d.rparen, d.lcurly, d.rcurly = sym("("), sym(")"), sym("{"), sym("}")
    d.node = Node("ProcDecl", [kw("proc"), ident], decl=d, name=ident, params=[], vars=[v.node for v in d.locals], stmts=list(stmts))
    rebuild_proc(d)
    return d


def rebuild_block(n):
    n.parts = [n.parts[0]] + n.stmts + [n.parts[-1]]


def stmt_lists(P):
    """every statement list of the program: (proc decl, container node, nesting depth)"""
    out = []
    def rec(n, proc, depth):
        if n.kind == "Block":
            out.append((proc, n, depth))
            for c in n.stmts: rec(c, proc, depth + 1)
        elif n.kind == "If":
            rec(n.then, proc, depth + 1)
            if n.els is not None: rec(n.els, proc, depth + 1)
        elif n.kind == "While":
            rec(n.body, proc, depth + 1)
    for p in P.procs:
        out.append((p, p.node, 0))
        for st in p.node.stmts: rec(st, p, 1)
    return out


def insert_stmt(container, index, stmt):
    container.stmts.insert(index, stmt)
    if container.kind == "ProcDecl": rebuild_proc(container.decl)
    else: rebuild_block(container)


def remove_stmt(container, index):
    st = container.stmts.pop(index)
    if container.kind == "ProcDecl": rebuild_proc(container.decl)
    else: rebuild_block(container)
    return st


def insert_decl(P, index, d):
    P.root.parts.insert(index, d.node); P.root.decls.insert(index, d)
    (P.types if d.kind == "type" else P.procs).append(d)
