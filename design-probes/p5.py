from lsp import *
from splgen import *
import sys, collections, re, random
N = int(sys.argv[1])
stat = collections.Counter(); ex = {}
def note(k, info):
    stat[k] += 1
    if k not in ex: ex[k] = info
# tiny reference lexer (python) for SPL
TOKRE = re.compile(r"(?P<comment>//[^\n]*(?:\n|$))|(?P<hex>0x[0-9a-fA-F]*)|(?P<int>[0-9]+)|(?P<char>'(?:\\n|[^\n])')|(?P<id>[A-Za-z_][A-Za-z0-9_]*)|(?P<sym>:=|<=|>=|[()\[\]{}=#<>:,;+\-*/])|(?P<ws>\s+)|(?P<unk>.)", re.S)
def lex(text):
    out = []
    for m in TOKRE.finditer(text):
        k = m.lastgroup; v = m.group()
        if k == "ws": continue
        if k == "hex": out.append(("int", int(v[2:], 16) if len(v) > 2 else None))
        elif k == "int": out.append(("int", int(v)))
        elif k == "char": out.append(("int", 10 if v == "'\\n'" else ord(v[1])))
        elif k == "comment": out.append(("comment", v[2:].strip()))
        else: out.append((k, v))
    return out
def apply_edits(text, edits):
    # edits: list of TextEdit with utf16 positions; apply back to front
    lines = text.split("\n")
    def off(p):
        l, c = p["line"], p["character"]
        if l >= len(lines): return len(text.encode("utf-16-le")) // 2
        return sum(len(x.encode("utf-16-le")) // 2 + 1 for x in lines[:l]) + min(c, len(lines[l].encode("utf-16-le")) // 2)
    u = text.encode("utf-16-le")
    for e in sorted(edits, key=lambda e: off(e["range"]["start"]), reverse=True):
        a, b = off(e["range"]["start"]), off(e["range"]["end"])
        u = u[:2*a] + e["newText"].encode("utf-16-le") + u[2*b:]
    return u.decode("utf-16-le")
S = Server()
def fmt(uri, text, opts):
    S.open(uri, text)
    r = S.request("textDocument/formatting", {"textDocument": {"uri": uri}, "options": opts})
    return r.get("result")
for seed in range(N):
    rng = random.Random(seed)
    g = Gen(rng).program()
    t1 = layout(g.toks, random.Random(seed * 7 + 1))
    t2 = layout(g.toks, random.Random(seed * 7 + 2))
    opts = rng.choice([{"tabSize": 4, "insertSpaces": True}, {"tabSize": 2, "insertSpaces": True}, {"tabSize": 8, "insertSpaces": False}, {"tabSize": 0, "insertSpaces": True}, {"tabSize": 3, "insertSpaces": True}])
    try:
        r1 = fmt("file:///a%d.spl" % seed, t1, opts)
        f1 = apply_edits(t1, r1) if r1 else t1
        r2 = fmt("file:///b%d.spl" % seed, t2, opts)
        f2 = apply_edits(t2, r2) if r2 else t2
        r3 = fmt("file:///c%d.spl" % seed, f1, opts)
    except (EOFError, TimeoutError) as e:
        msg = re.sub(r"\x1b\[[0-9;]*m", "", str(e)); m = re.search(r"Message:\s+(.*)\nLocation:\s+(.*)\n", msg)
        note("CRASH " + (m.group(1) + " @ " + m.group(2) if m else "?"), (seed,)); S = Server(); continue
    l0 = lex(t1); l1 = lex(f1)
    nc0 = [x for x in l0 if x[0] != "comment"]; nc1 = [x for x in l1 if x[0] != "comment"]
    note(("ok " if nc0 == nc1 else "BAD ") + "C09 tokens preserved", (seed, t1, f1))
    c0 = [x for x in l0 if x[0] == "comment"]; c1 = [x for x in l1 if x[0] == "comment"]
    note(("ok " if c0 == c1 else "BAD ") + "C10 comments preserved", (seed, c0, c1))
    note(("ok " if r3 is None else "BAD ") + "C11 idempotent", (seed, opts, f1, apply_edits(f1, r3) if r3 else None))
    note(("ok " if f1 == f2 else "BAD ") + "C11 canonical", (seed, f1, f2))
    if r1:
        full = r1[0]["range"]["start"] == {"line": 0, "character": 0} and len(r1) == 1
        note(("ok " if full else "BAD ") + "C09 whole-document edit", (seed, r1[0]["range"]))
    # indentation unit
    unit = " " * opts["tabSize"] if opts["insertSpaces"] else "\t"
    bad_ind = None
    depth_ok = True
    for ln in f1.split("\n"):
        lead = ln[:len(ln) - len(ln.lstrip(" \t"))]
        if unit == "":
            if lead: bad_ind = ln
        elif lead.replace(unit, "") != "": bad_ind = ln
    note(("ok " if bad_ind is None else "BAD ") + "C11 indentation unit", (seed, opts, bad_ind))
for k in sorted(stat): print(stat[k], k, str(ex[k])[:1500] if k.startswith(("BAD","CRASH")) else "")
