import os, re
from lsp import *
s = Server(binpath=os.environ.get("LSP_BIN"))
docs = ["proc main() {}\nproc f(a: int) { a := 1; }\nproc f(b: int) { var c: int; c := b; }\n", "proc f() {}\n", "proc main(a: int) {}\n", "type main = int;\nproc main() {}\n"]
for t in docs:
    try:
        s.open("file:///t.spl", t); print(s.diags("file:///t.spl"))
    except Exception as e:
        print("DIED on", repr(t)); print(re.sub(r"\x1b\[[0-9;]*m", "", s.stderr())[:700]); break
