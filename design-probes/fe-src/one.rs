use spl_frontend::{AnalyzedSource, TextChange, ErrorContainer};
fn main() {
    let a: Vec<String> = std::env::args().collect();
    let text = a[1].replace("\\n", "\n"); let s: usize = a[2].parse().unwrap(); let e: usize = a[3].parse().unwrap(); let ins = a[4].replace("\\n", "\n");
    let cur = AnalyzedSource::new(text.clone());
    let mut nt = text.clone(); nt.replace_range(s..e, &ins);
    let fresh = AnalyzedSource::new(nt.clone());
    let u = cur.update(vec![TextChange { range: s..e, text: ins }]);
    println!("tokens eq {}", u.tokens == fresh.tokens);
    let a = format!("{:#?}", u.ast); let b = format!("{:#?}", fresh.ast);
    let al: Vec<&str> = a.lines().collect(); let bl: Vec<&str> = b.lines().collect();
    for i in 0..al.len().max(bl.len()) { let x = al.get(i).unwrap_or(&""); let y = bl.get(i).unwrap_or(&""); if x != y { println!("line {}: inc={:?} fresh={:?}", i, x, y); } }
    println!("errors inc={:?}\nerrors fresh={:?}", std::panic::catch_unwind(|| u.errors()).ok(), fresh.errors());
}
