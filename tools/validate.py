#!/opt/veriftools/pyvenv/bin/python
import json, jsonschema, glob, sys
ok = True
jsonschema.validate(json.load(open('/verif/MANIFEST.json')), json.load(open('/root/.vp/MANIFEST.schema.json')))
es = json.load(open('/root/.vp/EVIDENCE.schema.json'))
for f in sorted(glob.glob('/verif/evidence/*.json')):
    try: jsonschema.validate(json.load(open(f)), es)
    except Exception as e: ok = False; print("INVALID", f, str(e)[:300])
print("valid" if ok else "INVALID")
sys.exit(0 if ok else 1)
