import subprocess, json, time, os
BIN = "/tmp/probe/target/release/lsp4spl"
def frame(o):
    b = json.dumps(o).encode(); return b"Content-Length: %d\r\n\r\n" % len(b) + b
def run(data, close=True, timeout=5):
    p = subprocess.Popen([BIN], stdin=subprocess.PIPE, stdout=subprocess.PIPE, stderr=subprocess.PIPE)
    t = time.time()
    try:
        out, err = p.communicate(data, timeout=timeout)
        return p.returncode, round(time.time() - t, 3), out, err[-300:]
    except subprocess.TimeoutExpired:
        p.kill(); out, err = p.communicate()
        return "HANG", timeout, out, err[-300:]
init = frame({"jsonrpc": "2.0", "id": 1, "method": "initialize", "params": {"capabilities": {}}})
inited = frame({"jsonrpc": "2.0", "method": "initialized", "params": {}})
shutdown = frame({"jsonrpc": "2.0", "id": 9, "method": "shutdown"})
exit_ = frame({"jsonrpc": "2.0", "method": "exit"})
hover = frame({"jsonrpc": "2.0", "id": 2, "method": "textDocument/hover", "params": {"textDocument": {"uri": "file:///x.spl"}, "position": {"line": 0, "character": 0}}})
unk = frame({"jsonrpc": "2.0", "id": 3, "method": "foo/bar", "params": {}})
note = frame({"jsonrpc": "2.0", "method": "foo/note", "params": {}})
cases = {
 "empty EOF": b"",
 "EOF after init": init,
 "EOF after init+initialized": init + inited,
 "EOF mid header": init[:10],
 "EOF mid body": init[:-5],
 "EOF mid body main phase": init + inited + hover[:-5],
 "hover before init": hover + init + inited + shutdown + exit_,
 "exit before init": exit_,
 "exit in main w/o shutdown": init + inited + exit_,
 "proper": init + inited + hover + unk + note + shutdown + exit_,
 "double init": init + inited + init + shutdown + exit_,
 "request after shutdown": init + inited + shutdown + hover + exit_,
 "EOF after shutdown (no exit)": init + inited + shutdown,
 "request between init and initialized": init + hover + inited + hover + shutdown + exit_,
 "note before init": note + init + inited + shutdown + exit_,
 "didOpen between init/initialized": init + frame({"jsonrpc":"2.0","method":"textDocument/didOpen","params":{"textDocument":{"uri":"file:///x.spl","languageId":"spl","version":0,"text":"proc main(){}"}}}) + inited + hover + shutdown + exit_,
 "garbage header": b"Foo: bar\r\n\r\n{}" ,
 "lowercase header": (lambda b: b"content-length: %d\r\n\r\n" % len(b) + b)(json.dumps({"jsonrpc": "2.0", "id": 1, "method": "initialize", "params": {"capabilities": {}}}).encode()) + inited + shutdown + exit_,
 "content-type header too": (lambda b: b"Content-Length: %d\r\nContent-Type: application/vscode-jsonrpc; charset=utf-8\r\n\r\n" % len(b) + b)(json.dumps({"jsonrpc": "2.0", "id": 1, "method": "initialize", "params": {"capabilities": {}}}).encode()) + inited + shutdown + exit_,
 "initialize with null params": frame({"jsonrpc": "2.0", "id": 1, "method": "initialize", "params": None}) + inited + shutdown + exit_,
 "shutdown with params null": init + inited + frame({"jsonrpc": "2.0", "id": 9, "method": "shutdown", "params": None}) + exit_,
}
for k, d in cases.items():
    rc, dt, out, err = run(d)
    ids = []
    rest = out
    while rest:
        i = rest.find(b"\r\n\r\n"); n = int(rest[:i].split(b":")[1]); body = rest[i+4:i+4+n]; rest = rest[i+4+n:]
        m = json.loads(body); ids.append((m.get("id"), m.get("error", {}).get("code") if "error" in m else ("ok" if "result" in m else m.get("method"))))
    print("%-40s rc=%s t=%s resp=%s %s" % (k, rc, dt, ids, err.decode(errors="replace").replace("\n", " ")[-120:] if rc not in (0,) else ""))
