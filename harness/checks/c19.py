"""C19 — message framing is independent of how the byte stream is chunked.
Oracle: the unsegmented run of the same session (metamorphic twin) + a strict frame parser on the server's output
(Content-Length must equal the byte length of a UTF-8 JSON body).  Every segment is written only after a server thread is
observed blocked in read(0, ...) (/proc/<pid>/task/*/syscall), so each segment really arrives as a read of its own."""
LEVEL = "fault_enumeration"
import glob, json, os, random, re, subprocess, time
from ..core import Part, pmap, NCPU, server_bin, Inconclusive
from ..client import frame
from .c18 import Run


def blocked_on_stdin(pid):
    for f in glob.glob("/proc/%d/task/*/syscall" % pid):
        try:
            s = open(f).read().split()
            if len(s) > 1 and s[0] == "0" and s[1] == "0x0": return True
        except Exception:
            pass
    return False


def pad(obj, size):
    """serialise obj as JSON of exactly `size` bytes (white space padding inside the object)"""
    b = json.dumps(obj, ensure_ascii=False, separators=(",", ":")).encode()
    if len(b) > size: raise ValueError("too big")
    return b[:-1] + b" " * (size - len(b)) + b[-1:]


CT = b"Content-Type: application/vscode-jsonrpc; charset=utf-8\r\n"


def framed(body, variant=0):
    """variant 1/2: the optional Content-Type header field in front of / behind Content-Length (the specification fixes no order)"""
    cl = b"Content-Length: %d\r\n" % len(body)
    return {0: cl, 1: CT + cl, 2: cl + CT}[variant] + b"\r\n" + body


def session_bytes(rng, kind):
    uri = "file:///c19/%s.spl" % rng.choice(["a", "ä€", "x%20y"])
    headers = kind == "headers"
    if headers: kind = "unicode"
    text = {"ascii": "proc main() {\n    var x: int;\n    x := 1;\n    printi(x);\n}\n",
            "unicode": "// käse € 😀 \U0001F600\nproc main() {\n    var x: int; // ünï\n    x := 'a' + 0x10;\n    undefined(x);\n}\n// €€€\n"}[kind if kind in ("ascii", "unicode") else "unicode"]
    msgs = []
    def M(o, size=None): msgs.append(framed(pad(o, size) if size else json.dumps(o, ensure_ascii=False, separators=(",", ":")).encode(), [1, 2, 1, 0][len(msgs) % 4] if headers else 0))
    M({"jsonrpc": "2.0", "id": 1, "method": "initialize", "params": {"capabilities": {"textDocument": {"publishDiagnostics": {}}}}})
    M({"jsonrpc": "2.0", "method": "initialized", "params": {}}, size=99 if kind == "sizes" else None)
    if kind == "sizes": M({"jsonrpc": "2.0", "method": "$/unknownNotification"}, size=100)
    M({"jsonrpc": "2.0", "method": "textDocument/didOpen", "params": {"textDocument": {"uri": uri, "languageId": "spl", "version": 0, "text": text}}}, size=1000 if kind == "sizes" else None)
    M({"jsonrpc": "2.0", "id": 2, "method": "textDocument/hover", "params": {"textDocument": {"uri": uri}, "position": {"line": 2, "character": 9}}}, size=999 if kind == "sizes" else None)
    M({"jsonrpc": "2.0", "id": 3, "method": "textDocument/semanticTokens/full", "params": {"textDocument": {"uri": uri}}}, size=1001 if kind == "sizes" else None)
    if kind == "sizes":
        big = "// " + "x€" * 2000 + "\n" + text
        M({"jsonrpc": "2.0", "method": "textDocument/didOpen", "params": {"textDocument": {"uri": uri + "2", "languageId": "spl", "version": 0, "text": big}}}, size=10000)
        M({"jsonrpc": "2.0", "method": "textDocument/didOpen", "params": {"textDocument": {"uri": uri + "3", "languageId": "spl", "version": 0, "text": big * 9}}}, size=100000)
        M({"jsonrpc": "2.0", "method": "textDocument/didOpen", "params": {"textDocument": {"uri": uri + "4", "languageId": "spl", "version": 0, "text": big}}}, size=9999)
        M({"jsonrpc": "2.0", "method": "textDocument/didOpen", "params": {"textDocument": {"uri": uri + "5", "languageId": "spl", "version": 0, "text": big * 9}}}, size=99999)
    M({"jsonrpc": "2.0", "method": "textDocument/didChange", "params": {"textDocument": {"uri": uri, "version": 1}, "contentChanges": [{"range": {"start": {"line": 0, "character": 0}, "end": {"line": 0, "character": 0}}, "text": "// neu ü😀\n"}]}})
    if kind == "storm":
        # 150 notifications without a request in between: more than any queue of the server holds; in one write they arrive faster
        # than they can be processed, message by message they do not - the decoded sequence and the answers have to be the same
        for v in range(2, 152):
            M({"jsonrpc": "2.0", "method": "textDocument/didChange", "params": {"textDocument": {"uri": uri, "version": v}, "contentChanges": [{"range": {"start": {"line": 0, "character": 0}, "end": {"line": 0, "character": 0}}, "text": "// storm %d é\n" % v}]}})
    M({"jsonrpc": "2.0", "id": 4, "method": "textDocument/formatting", "params": {"textDocument": {"uri": uri}, "options": {"tabSize": 2, "insertSpaces": True}}})
    M({"jsonrpc": "2.0", "id": 5, "method": "$/verif/text", "params": {"uri": uri}})
    M({"jsonrpc": "2.0", "id": 6, "method": "shutdown"})
    M({"jsonrpc": "2.0", "method": "exit"})
    return b"".join(msgs)


def huge_session():
    """formatting a 2.3 MiB document: the server has to emit a frame larger than any single write it is likely to get through"""
    uri = "file:///c19/huge.spl"
    unit = "proc p%d(a: int, ref b: int) {\n  var c: int; // ü€ %d\n  c := a * %d + b;\n  if (c < a) { b := c; } else { b := a; }\n}\n"
    text = "".join(unit % (i, i, i) for i in range(21000)) + "proc main() {}\n"
    msgs = [{"jsonrpc": "2.0", "id": 1, "method": "initialize", "params": {"capabilities": {}}}, {"jsonrpc": "2.0", "method": "initialized", "params": {}},
            {"jsonrpc": "2.0", "method": "textDocument/didOpen", "params": {"textDocument": {"uri": uri, "languageId": "spl", "version": 0, "text": text}}},
            {"jsonrpc": "2.0", "id": 2, "method": "textDocument/formatting", "params": {"textDocument": {"uri": uri}, "options": {"tabSize": 8, "insertSpaces": True}}},
            {"jsonrpc": "2.0", "id": 3, "method": "textDocument/hover", "params": {"textDocument": {"uri": uri}, "position": {"line": 0, "character": 6}}},
            {"jsonrpc": "2.0", "id": 4, "method": "shutdown"}, {"jsonrpc": "2.0", "method": "exit"}]
    return b"".join(framed(json.dumps(m, ensure_ascii=False, separators=(",", ":")).encode()) for m in msgs), len(text.encode())


def check_huge(ctx, binpath):
    data, n = huge_session()
    part = Part()
    ref = run_segments(binpath, [data], handshake=False)
    part.ev()
    sc = {"kind": "huge", "session": "huge"}
    if ref[2]: part.fail("session with a %.1f MiB document: the server emitted a malformed frame: %s" % (n / 2 ** 20, ref[2]), sc)
    elif ref[0] != ("exit", 0) or sorted(ref[1]["responses"]) != ["1", "2", "3", "4"]: part.fail("session with a %.1f MiB document: exit %r, responses %r" % (n / 2 ** 20, ref[0], sorted(ref[1]["responses"])), sc)
    else:
        big = len(json.dumps(ref[1]["responses"]["2"]))
        cuts = [len(data) // 3, 2 * len(data) // 3]
        got = run_segments(binpath, [data[:cuts[0]], data[cuts[0]:cuts[1]], data[cuts[1]:]]); part.ev()
        if compare(part, ref, got, "huge session in 3 segments", sc): part.see(("huge", big > 2 ** 21))
        ctx.extra["largest_outgoing_frame_bytes"] = big
    ctx.merge(part)


def run_segments(binpath, segments, handshake=True):
    """-> (exit status, projection of the output, torn/frame error or None, number of frames)"""
    r = Run(binpath)
    try:
        for s in segments:
            if handshake:
                t0 = time.monotonic()
                while not blocked_on_stdin(r.p.pid):
                    if r.p.poll() is not None: break
                    if time.monotonic() - t0 > 10: return ("never-blocked", None, None, 0)
                    r.pump(0.0003)
            if not r.write(s): break
        res = r.finish(close_stdin=True, limit=15)
        proj = {"responses": {}, "notifications": {}}
        for m in r.msgs:
            if "id" in m and "method" not in m:
                proj["responses"].setdefault(str(m["id"]), []).append(m.get("result", {"__error__": m.get("error")}))
            else:
                proj["notifications"].setdefault((m.get("params") or {}).get("uri", "?"), []).append(m)
        return (res, proj, r.torn, len(r.msgs))
    finally:
        r.kill()


def waiting_session(rng):
    """messages of a client that waits for every answer before it goes on; frames with 2-, 3- and 4-digit lengths in changing order,
    so that a frame is often followed by one with a shorter header"""
    uri = "file:///c19/w.spl"
    text = "// käse € 😀\nproc main() {\n    var x: int; // ünï\n    x := 'a' + 0x10;\n    undefined(x);\n}\n"
    J = lambda o: json.dumps(o, ensure_ascii=False, separators=(",", ":")).encode()
    msgs = [J({"jsonrpc": "2.0", "id": 1, "method": "initialize", "params": {"capabilities": {}}}), J({"jsonrpc": "2.0", "method": "initialized", "params": {}})]
    rid = 1
    def req(method, extra, size=None):
        nonlocal rid
        rid += 1; o = {"jsonrpc": "2.0", "id": rid, "method": method, "params": dict({"textDocument": {"uri": uri}}, **extra)}
        return pad(o, size) if size else J(o)
    opened = False
    for _ in range(rng.randint(4, 9)):
        c = rng.random()
        if c < .3 or not opened:
            big = text + "// " + "x€" * rng.choice([10, 300, 400]) + "\n"
            msgs.append(J({"jsonrpc": "2.0", "method": "textDocument/didOpen", "params": {"textDocument": {"uri": uri, "languageId": "spl", "version": 0, "text": big}}})); opened = True
        elif c < .5: msgs.append(req("textDocument/hover", {"position": {"line": 2, "character": 9}}, rng.choice([None, 999, 1000, 1001])))
        elif c < .7: msgs.append(req("textDocument/foldingRange", {}, rng.choice([None, 200, 999, 1000])))
        elif c < .85: msgs.append(J({"jsonrpc": "2.0", "method": "$/unknownNotification"}))
        else: msgs.append(req("textDocument/semanticTokens/full", {}))
    rid += 1; msgs.append(J({"jsonrpc": "2.0", "id": rid, "method": "shutdown"})); msgs.append(J({"jsonrpc": "2.0", "method": "exit"}))
    return msgs


def interesting_cuts(rng, frame_bytes, hdr_len):
    """0-3 cut points inside one frame: near the end of the header block, inside the length, inside the body (also inside characters)"""
    n = len(frame_bytes); cuts = set()
    for _ in range(rng.choice([0, 1, 2, 2, 3])):
        c = rng.random()
        if c < .4: cuts.add(hdr_len - rng.choice([1, 2, 3, 4]))          # inside the \r\n\r\n that ends the header block
        elif c < .55: cuts.add(rng.randint(1, max(1, hdr_len - 5)))      # inside the header field
        else: cuts.add(rng.randint(hdr_len, n - 1))                      # inside the body
    return sorted(x for x in cuts if 0 < x < n)


def worker_waiting(args):
    """a client that waits: every message is written in 1-4 segments (each only after the server was seen blocked in read(0)), and the
    answer to every request is awaited before the next message is sent. An answer that only comes when more input arrives is a violation."""
    shard, nsess, seed = args
    binpath = server_bin("rel"); part = Part()
    rng = random.Random("C19/waiting/%s/%d" % (seed, shard))
    for it in range(nsess):
        srng = random.Random(rng.getrandbits(32))
        bodies = waiting_session(srng)
        variant = [srng.choice([0, 0, 1, 2]) for _ in bodies]
        frames = [framed(b, v) for b, v in zip(bodies, variant)]
        plan = [interesting_cuts(srng, f, f.index(b"\r\n\r\n") + 4) for f in frames]
        sc = {"kind": "waiting", "seed": "%s/%d/%d" % (seed, shard, it), "cuts": plan, "lengths": [len(b) for b in bodies]}
        # sometimes a well-framed body that is no request or notification (a response of the client, an empty object) travels in the
        # same write in front of a request: the server may skip it or give up, but it must not sit on the request behind it
        reqs = [i for i, b in enumerate(bodies) if i >= 2 and b'"id"' in b and b'"shutdown"' not in b]
        bad_at = srng.choice(reqs) if srng.random() < .15 and reqs else None
        bad = framed(srng.choice([b'{"jsonrpc":"2.0","id":"client-7","result":null}', b'{}', b'[]', b'{"jsonrpc":"2.0","id":3,"error":{"code":1,"message":"x"}}']))
        sc["undecodable_frame_in_front_of_message"] = bad_at
        r = Run(binpath)
        try:
            ok = True; carry = b""
            for mi, (f, cuts, body) in enumerate(zip(frames, plan, bodies)):
                segs = [f[a:b] for a, b in zip([0] + cuts, cuts + [len(f)])]
                if mi == bad_at: segs = [bad + f]
                if carry: segs[0] = carry + segs[0]; carry = b""
                if b'"id"' not in body and mi + 1 < len(frames) and mi + 1 != bad_at and srng.random() < .3:
                    carry = b"".join(segs); continue               # this notification shares one write with the message behind it
                for sg in segs:
                    t0 = time.monotonic()
                    while not blocked_on_stdin(r.p.pid):
                        if r.p.poll() is not None: break
                        if time.monotonic() - t0 > 10: break
                        r.pump(0.0003)
                    if not r.write(sg): break
                part.ev()
                o = json.loads(body)
                if "id" in o:
                    t0 = time.monotonic()
                    while not any(m.get("id") == o["id"] and "method" not in m for m in r.msgs):
                        if r.eof or time.monotonic() - t0 > 10: break
                        r.pump(0.01)
                    if mi == bad_at and (r.eof or r.p.poll() is not None) and not any(m.get("id") == o["id"] and "method" not in m for m in r.msgs):
                        part.cnt("waiting_sessions_ended_at_undecodable_frame"); ok = None; break       # gave up at the undecodable frame: fine
                    if not any(m.get("id") == o["id"] and "method" not in m for m in r.msgs):
                        part.fail("request %d (%s, %d-byte body, written in %d segment(s) after frames with bodies of %r bytes) got no answer within 10 s although it was written completely and the server is waiting for input"
                                  % (o["id"], o["method"], len(body), len(segs), sc["lengths"][:bodies.index(body)][-2:]), sc); ok = False; break
            if ok:
                res = r.finish(close_stdin=True, limit=15)
                if res[:2] != ("exit", 0) or r.torn: part.fail("waiting client, segmented writes: %r %s" % (res[:2], r.torn or ""), sc)
                else:
                    part.cnt("waiting_sessions"); part.see(("waiting", len(bodies), sum(len(c) for c in plan)))
                    for f, cuts in zip(frames, plan):
                        h = f.index(b"\r\n\r\n") + 4
                        for c in cuts: part.cnt("waiting_cuts_" + ("header-end" if h - 4 <= c < h else "header" if c < h else "body"))
        finally:
            r.kill()
    return part


def compare(part, ref, got, what, sc):
    res, proj, torn, n = got
    if res == "never-blocked": part["inconclusive"].append("%s: no server thread was ever seen blocked in read(0)" % what); return False
    if torn: part.fail("%s: the server emitted a malformed frame: %s" % (what, torn), sc); return False
    if res[0] != "exit": part.fail("%s: %s" % (what, res[1]), sc); return False
    if res != ref[0]: part.fail("%s: exit %r, unsegmented run %r" % (what, res, ref[0]), sc); return False
    if proj != ref[1]:
        a, b = json.dumps(proj, sort_keys=True), json.dumps(ref[1], sort_keys=True)
        i = next((i for i, (x, y) in enumerate(zip(a, b)) if x != y), min(len(a), len(b)))
        part.fail("%s: output differs from the unsegmented run near %r vs %r" % (what, a[max(0, i - 60):i + 60], b[max(0, i - 60):i + 60]), sc); return False
    return True


def worker(args):
    kind, shard, nshards, mode, seed, step = args
    binpath = server_bin("rel"); part = Part()
    rng = random.Random("C19/%s/%s/%d" % (seed, kind, shard))
    data = session_bytes(random.Random("C19/session/%s" % kind), kind)
    ref = run_segments(binpath, [data], handshake=False)
    if ref[2] or ref[0][0] != "exit" or ref[0][1] != 0 or len(ref[1]["responses"]) != 6:
        part.fail("unsegmented reference run of session %r is already wrong: %r torn=%r" % (kind, ref[0], ref[2]), {"kind": "reference", "session": kind}); return part
    part.ev()
    if mode == "two-way":
        for cut in range(1, len(data)):
            if (cut // step) % nshards != shard or cut % step: continue
            got = run_segments(binpath, [data[:cut], data[cut:]]); part.ev()
            if compare(part, ref, got, "session %r split after byte %d" % (kind, cut), {"kind": "split", "session": kind, "cuts": [cut]}):
                # where does the cut fall?
                hdr = [m.start() for m in re.finditer(rb"Content-Length: \d+\r\n\r\n", data)]
                inside_header = any(h < cut < h + len(re.match(rb"Content-Length: \d+\r\n\r\n", data[h:]).group()) for h in hdr)
                mb = 0x80 <= data[cut] < 0xC0
                part.see(("two-way", kind, "header" if inside_header else "multibyte" if mb else "body")); part.cnt("two_way_splits")
    else:
        for it in range(step):
            k = rng.choice([3, 5, 8, 16, 64])
            cuts = sorted(rng.sample(range(1, len(data)), min(k - 1, len(data) - 1)))
            segs = [data[a:b] for a, b in zip([0] + cuts, cuts + [len(data)])]
            got = run_segments(binpath, segs); part.ev()
            if compare(part, ref, got, "session %r in %d segments" % (kind, len(segs)), {"kind": "split", "session": kind, "cuts": cuts}): part.see(("k-way", kind, len(segs))); part.cnt("k_way_splits")
        if shard == 0 and kind != "sizes":
            got = run_segments(binpath, [data[i:i + 1] for i in range(len(data))], handshake=False); part.ev()
            if compare(part, ref, got, "session %r one byte per write" % kind, {"kind": "bytewise", "session": kind}): part.see(("bytewise", kind)); part.cnt("bytewise_runs")
    if shard == 0: part.sample({"part": "session", "kind": kind, "bytes": len(data), "frames_out": ref[3], "content_lengths_in": [int(x) for x in re.findall(rb"Content-Length: (\d+)", data)]}, 3)
    return part


def strace_sample(ctx, binpath):
    """observation for the evidence: sizes of the reads of fd 0 the server really performed for a three-way split"""
    data = session_bytes(random.Random("C19/session/ascii"), "ascii")
    log = "/tmp/verif-c19-strace-%d.log" % os.getpid()
    try:
        p = subprocess.Popen(["strace", "-f", "-e", "trace=read", "-o", log, binpath], stdin=subprocess.PIPE, stdout=subprocess.PIPE, stderr=subprocess.DEVNULL, bufsize=0)
        time.sleep(0.3)
        kids = subprocess.run(["pgrep", "-P", str(p.pid)], capture_output=True, text=True).stdout.split()
        pid = int(kids[0]) if kids else p.pid
        for seg in (data[:100], data[100:130], data[130:]):
            t0 = time.monotonic()
            while not blocked_on_stdin(pid) and time.monotonic() - t0 < 5: time.sleep(0.001)
            os.write(p.stdin.fileno(), seg)
        p.stdin.close(); p.stdout.read(); p.wait(10)
        sizes = [int(m.group(1)) for m in re.finditer(r"read\(0, .*\) = (\d+)", open(log).read())]
        ctx.extra["strace_read_sizes_for_segments_100_30_rest"] = sizes[:8]
    except Exception as e:
        ctx.extra["strace_read_sizes_for_segments_100_30_rest"] = "not available: %s" % e
    finally:
        try: os.remove(log)
        except Exception: pass


def run(ctx):
    binpath = server_bin("rel")
    jobs = []
    step = 1
    for kind in ("ascii", "unicode", "headers"): jobs += [(kind, i, NCPU // 2, "two-way", ctx.seed, step) for i in range(NCPU // 2)]
    for p in pmap(worker, jobs): ctx.merge(p)
    jobs = []
    for kind in ("ascii", "unicode", "sizes", "headers"): jobs += [(kind, i, 4, "k-way", ctx.seed, 8 if ctx.quick else 150) for i in range(4)]
    jobs += [("storm", i, 4, "k-way", ctx.seed, 3 if ctx.quick else 40) for i in range(4)]
    for p in pmap(worker, jobs): ctx.merge(p)
    for p in pmap(worker_waiting, [(i, 12 if ctx.quick else 400, ctx.seed) for i in range(NCPU)]): ctx.merge(p)
    check_huge(ctx, binpath)
    strace_sample(ctx, binpath)
    c = ctx.extra.get("counters", {})
    ctx.exhaustive = None
    ctx.extra["two_way_part"] = {"sessions": ["ascii", "unicode", "headers (Content-Type in front of / behind Content-Length)"], "every_nth_byte": step, "complete": step == 1, "splits": c.get("two_way_splits")}
    ctx.rule = ("sessions with ASCII and non-ASCII document text (2-4-byte characters in text, comments and URI), frames with 2- to 6-digit Content-Length (99/100, 999/1000, 9999/10000, 99999/100000 bytes), "
                "ending with shutdown + exit; every two-way split (every %s byte offset) incl. inside `\\r\\n\\r\\n`, inside the length digits and inside multi-byte characters; random 3..64-way splits; one byte per "
                "write; each compared with the unsegmented run; a waiting client (answer to every request awaited before the next message) whose frames arrive in 1-4 segments cut near the end of the header block, "
                "inside the length and inside the body, with frames of 2-, 3- and 4-digit lengths following each other; distinct_nontrivial = distinct (mode, session, place of the cut / number of segments)" % ("" if step == 1 else "%dnd" % step))
    ctx.assumptions = ["a segment counts as delivered separately when a server thread was observed blocked in read(0) before it was written (handshake); confirmed on a sample with strace"]
    ctx.floor("evaluations", ctx.evaluations, 800)
    ctx.floor("two-way splits compared", c.get("two_way_splits", 0), 600)
    ctx.floor("sessions of a waiting client with segmented writes", c.get("waiting_sessions", 0), 100)


def replay(ctx, sc):
    part = Part(); binpath = server_bin("rel")
    if sc.get("kind") == "waiting":
        seed, shard, it = sc["seed"].rsplit("/", 2)
        ctx.merge(worker_waiting((int(shard), int(it) + 1, seed))); ctx.see(1); ctx.see(2); return
    if sc["session"] == "huge":
        check_huge(ctx, binpath); ctx.see(1); ctx.see(2); return
    data = session_bytes(random.Random("C19/session/%s" % sc["session"]), sc["session"])
    ref = run_segments(binpath, [data], handshake=False)
    cuts = sc.get("cuts") or list(range(1, len(data)))
    segs = [data[a:b] for a, b in zip([0] + cuts, cuts + [len(data)])]
    compare(part, ref, run_segments(binpath, segs, handshake=sc["kind"] != "bytewise"), "replay", sc); part.ev()
    ctx.merge(part); ctx.see(1); ctx.see(2)
