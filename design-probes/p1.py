from lsp import *
s = Server()
print(json.dumps(s.caps)[:300])
uri = "file:///a.spl"
text = open("/repo/lsp4spl/tests/programs/acker.spl").read()
s.open(uri, text)
print(s.diags(uri))
print(s.request("textDocument/hover", tdp(uri, 5, 6)))
print(s.request("textDocument/formatting", {"textDocument": {"uri": uri}, "options": {"tabSize": 4, "insertSpaces": True}}))
print(s.request("foo/bar", {}))
print("exit", s.close())
# crash probe
s = Server()
s.open(uri, "type printi = int;\nproc main() {}\n")
print(s.diags(uri))
try:
    print(s.request("textDocument/implementation", tdp(uri, 0, 6)))
    print(s.request("textDocument/declaration", tdp(uri, 0, 6)))
except EOFError as e:
    print("CRASH", str(e)[:3000])
