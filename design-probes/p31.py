# C01 at LSP level: structured valid->valid edit histories with batches; edited doc vs fresh twin
import os, sys, random, collections
from lsp import *
from splgen import *
import lspmodel
S = Server(); N = int(sys.argv[1]); stat = collections.Counter(); ex = {}
def note(k, i):
    stat[k] += 1; ex.setdefault(k, i)
def panel(uri):
    out = {}
    for m, extra in [("semanticTokens/full", {}), ("foldingRange", {}), ("formatting", {"options": {"tabSize": 4, "insertSpaces": True}})]:
        out[m] = S.request("textDocument/" + m, dict({"textDocument": {"uri": uri}}, **extra)).get("result")
    return out
def stmt_text(rng):
    return rng.choice(["printi(%d);", "exit();", ";", "{ printi(%d); }", "if (1 < %d) { } else { printi(2); }", "while (%d # 3) printi(0);", "// note %d\nprinti(1);"]).replace("%d", str(rng.randint(0, 999)))
for seed in range(N):
    rng = random.Random(seed); g = Gen(rng).program()
    text = layout(g.toks, random.Random(seed), style="plain")
    uri = "file:///e%d.spl" % seed; S.open(uri, text)
    for step in range(8):
        # build a batch of 1-3 changes, each relative to predecessor: insert statements at statement starts found by simple search of "; " boundaries inside bodies: use positions right after '{' of procs
        changes = []; cur = text
        for _ in range(rng.randint(1, 3)):
            # candidate insertion points: after any "{ " that follows ")" (proc body or block) or after "; " inside a body -> keep simple: after "{"
            pts = [i + 1 for i, ch in enumerate(cur) if ch == "{"]
            if not pts: break
            p = rng.choice(pts)
            # avoid var-decl region: inserting a statement before var decls is invalid; choose only '{' not followed (later in that body) by 'var' before next '}' -> approximate: skip if ' var ' occurs between p and next '}'
            nxt = cur.find("}", p)
            if " var " in cur[p:nxt + 1] or "var " == cur[p+1:p+5]: continue
            ins = " " + stmt_text(rng)
            l, c = lspmodel.position(cur, p)
            changes.append({"range": {"start": {"line": l, "character": c}, "end": {"line": l, "character": c}}, "text": ins})
            cur = cur[:p] + ins + cur[p:]
        if not changes: continue
        twin = "file:///e%d_t%d.spl" % (seed, step); S.open(twin, cur); d_new = S.diags(twin)
        if any(x["message"].startswith(("expected", "missing", "unexpected")) for x in d_new):
            note("skipped: edit not valid->valid", None); continue
        try:
            S.change(uri, changes); text = cur
            d_inc = S.diags(uri)
        except (EOFError, TimeoutError) as e:
            note("CRASH on change", (seed, step)); S = Server(); break
        note(("ok " if d_inc == d_new else "BAD ") + "diagnostics", (seed, step, d_inc[:2], d_new[:2]))
        try: a = panel(uri); b = panel(twin)
        except (EOFError, TimeoutError) as e:
            note("CRASH in panel", (seed, step, changes)); S = Server(); break
        for m in a: note(("ok " if a[m] == b[m] else "BAD ") + m, (seed, step))
for k in sorted(stat): print(stat[k], k, str(ex[k])[:300] if k.startswith("BAD") else "")
