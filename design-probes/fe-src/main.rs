use spl_frontend::{AnalyzedSource, TextChange, ErrorContainer, lexer, tokens::*};
use std::panic;

struct Rng(u64);
impl Rng {
    fn next(&mut self) -> u64 { self.0 = self.0.wrapping_add(0x9E3779B97F4A7C15); let mut z = self.0; z = (z ^ (z >> 30)).wrapping_mul(0xBF58476D1CE4E5B9); z = (z ^ (z >> 27)).wrapping_mul(0x94D049BB133111EB); z ^ (z >> 31) }
    fn below(&mut self, n: usize) -> usize { (self.next() % n as u64) as usize }
    fn pick<'a, T>(&mut self, v: &'a [T]) -> &'a T { &v[self.below(v.len())] }
}

const FRAGS: &[&str] = &["proc ", "type ", "var ", "if ", "else ", "while ", "array ", "of ", "ref ", "int", "x", "y", "main", "foo", "(", ")", "[", "]", "{", "}", ";", ":", ":=", "=", "#", "<", "<=", ">", ">=", "+", "-", "*", "/", ",", "0", "12", "0x1F", "0x", "'a'", "'", "'\\n'", "// c\n", "//", " ", "\n", "  ", "ä", "€", "😀", "_", "1x", "\r\n", "\t"];

fn gen_expr(r: &mut Rng, d: usize) -> String {
    match if d == 0 { r.below(3) } else { r.below(8) } {
        0 => "x".into(), 1 => format!("{}", r.below(100)), 2 => "y".into(),
        3 => format!("({})", gen_expr(r, d-1)),
        4 => format!("-{}", gen_expr(r, d-1)),
        5 => format!("a[{}]", gen_expr(r, d-1)),
        _ => format!("{} {} {}", gen_expr(r, d-1), r.pick(&["+","-","*","/"]), gen_expr(r, d-1)),
    }
}
fn gen_stmt(r: &mut Rng, d: usize, ind: usize) -> String {
    let p = " ".repeat(ind);
    match if d == 0 { r.below(3) } else { r.below(7) } {
        0 => format!("{}x := {};\n", p, gen_expr(r, 2)),
        1 => format!("{}foo({}, y);\n", p, gen_expr(r, 2)),
        2 => format!("{};\n", p),
        3 => format!("{}if ({} < {}) {{\n{}{}}}\n", p, gen_expr(r,1), gen_expr(r,1), gen_stmt(r, d-1, ind+2), p),
        4 => format!("{}if ({} = {}) {{\n{}{}}} else {{\n{}{}}}\n", p, gen_expr(r,1), gen_expr(r,1), gen_stmt(r, d-1, ind+2), p, gen_stmt(r,d-1,ind+2), p),
        5 => format!("{}while ({} # {}) {{\n{}{}}}\n", p, gen_expr(r,1), gen_expr(r,1), gen_stmt(r, d-1, ind+2), p),
        _ => format!("{}{{\n{}{}{}}}\n", p, gen_stmt(r, d-1, ind+2), gen_stmt(r, d-1, ind+2), p),
    }
}
fn gen_prog(r: &mut Rng) -> String {
    let mut s = String::new();
    s += "type A = array [3] of int;\n";
    let n = 1 + r.below(3);
    for i in 0..n {
        if r.below(3) == 0 { s += "// doc\n"; }
        let name = if i == n-1 { "main".to_string() } else if i == 0 { "foo".to_string() } else { format!("p{}", i) };
        let params = if name == "foo" { "x: int, y: int" } else { "" };
        s += &format!("proc {}({}) {{\n", name, params);
        if name != "foo" { s += "  var x: int;\n  var y: int;\n"; }
        s += "  var a: A;\n";
        for _ in 0..(1 + r.below(4)) { s += &gen_stmt(r, 2, 2); }
        s += "}\n";
        if r.below(4) == 0 { s += "type T"; s += &i.to_string(); s += " = int;\n"; }
    }
    s
}

fn char_boundaries(s: &str) -> Vec<usize> { let mut v: Vec<usize> = s.char_indices().map(|(i,_)| i).collect(); v.push(s.len()); v }

fn gen_edit(r: &mut Rng, text: &str, mode: usize) -> TextChange {
    let b = char_boundaries(text);
    let si = r.below(b.len());
    let maxlen = match r.below(4) { 0 => 0, 1 => 1, 2 => 3, _ => 12 };
    let ei = (si + r.below(maxlen + 1)).min(b.len() - 1);
    let ins = match mode {
        0 => { // token-ish fragments
            let k = r.below(4);
            (0..k).map(|_| *r.pick(FRAGS)).collect::<String>()
        }
        _ => { // statement-level
            match r.below(4) { 0 => String::new(), 1 => gen_stmt(r, 1, 2), 2 => gen_expr(r, 2), _ => (*r.pick(FRAGS)).to_string() }
        }
    };
    TextChange { range: b[si]..b[ei], text: ins }
}

fn dump(a: &AnalyzedSource) -> String { format!("{:?}\n{:#?}\n{:?}", a.tokens, a.ast, a.table) }

fn main() {
    let args: Vec<String> = std::env::args().collect();
    let seed: u64 = args.get(1).map(|s| s.parse().unwrap()).unwrap_or(1);
    let iters: usize = args.get(2).map(|s| s.parse().unwrap()).unwrap_or(1000);
    let mode: usize = args.get(3).map(|s| s.parse().unwrap()).unwrap_or(0);
    let verbose = args.get(4).is_some();
    panic::set_hook(Box::new(|_| {}));
    let mut r = Rng(seed);
    let (mut n, mut lexdiv, mut tokdiv, mut astdiv, mut tabdiv, mut errdiv, mut panics_upd, mut panics_new, mut valid_valid, mut vv_div) = (0,0,0,0,0,0,0,0,0,0);
    let mut panic_sites: std::collections::BTreeMap<String, usize> = Default::default();
    for _ in 0..iters {
        let text0 = gen_prog(&mut r);
        let mut cur = match panic::catch_unwind(|| AnalyzedSource::new(text0.clone())) { Ok(a) => a, Err(_) => { panics_new += 1; continue } };
        for _step in 0..(1 + r.below(6)) {
            let ch = gen_edit(&mut r, &cur.text, mode);
            n += 1;
            let mut new_text = cur.text.clone();
            new_text.replace_range(ch.range.clone(), &ch.text);
            // lexer-level check
            let lx = { let toks = cur.tokens.clone(); let nt = new_text.clone(); let c = ch.clone(); panic::catch_unwind(move || lexer::update(&nt, toks, &c)) };
            let fresh_toks = lexer::lex(&new_text);
            if let Ok((t, _)) = &lx { if *t != fresh_toks { lexdiv += 1; if verbose { println!("LEXDIV old={:?} ch={:?}", cur.text, ch); } } }
            let fresh = match panic::catch_unwind(|| AnalyzedSource::new(new_text.clone())) { Ok(a) => a, Err(e) => { panics_new += 1; let m = e.downcast_ref::<String>().cloned().or(e.downcast_ref::<&str>().map(|s| s.to_string())).unwrap_or_default(); *panic_sites.entry(format!("new:{}", m)).or_default() += 1; break } };
            let c2 = cur.clone(); let chc = ch.clone();
            let upd = panic::catch_unwind(move || c2.update(vec![chc]));
            match upd {
                Err(e) => { panics_upd += 1; let m = e.downcast_ref::<String>().cloned().or(e.downcast_ref::<&str>().map(|s| s.to_string())).unwrap_or_default(); *panic_sites.entry(format!("upd:{}", m)).or_default() += 1;
                    if verbose { println!("PANIC old={:?} ch={:?} msg={}", cur.text, ch, m); }
                    cur = fresh; }
                Ok(u) => {
                    let was_valid = panic::catch_unwind(|| cur.errors().is_empty()).unwrap_or(false);
                    let is_valid = panic::catch_unwind(|| fresh.errors().is_empty()).unwrap_or(false);
                    if was_valid && is_valid { valid_valid += 1; }
                    let mut any = false;
                    if u.tokens != fresh.tokens { tokdiv += 1; any = true; }
                    if u.ast != fresh.ast { astdiv += 1; any = true; }
                    if u.table != fresh.table { tabdiv += 1; any = true; }
                    let e1 = panic::catch_unwind(|| u.errors()); let e2 = panic::catch_unwind(|| fresh.errors());
                    match (e1, e2) { (Ok(a), Ok(b)) => if a != b { errdiv += 1; any = true; }, (Err(_), Ok(_)) => { errdiv += 1; any = true; *panic_sites.entry("errors() after update".into()).or_default() += 1; }, _ => {} }
                    if any && was_valid && is_valid { vv_div += 1; }
                    if any && verbose { println!("DIV old={:?} ch={:?}", cur.text, ch); }
                    // continue from the updated (real history) unless diverged -> continue from fresh to count independent
                    cur = if any { fresh } else { u };
                }
            }
        }
    }
    println!("edits={} lexdiv={} tokdiv={} astdiv={} tabdiv={} errdiv={} panics_upd={} panics_new={} valid_valid={} vv_div={}", n, lexdiv, tokdiv, astdiv, tabdiv, errdiv, panics_upd, panics_new, valid_valid, vv_div);
    for (k, v) in panic_sites { println!("  {} x{}", k.replace('\n', " "), v); }
}
