//! fe-adaptor: a long-running JSON-lines server over stdio that exposes the public API of the real
//! `spl_frontend` library (lex, update, parse, AnalyzedSource::new/update/errors) to the Python harness,
//! and evaluates the oracles that are trivial in Rust (derived `==`, range arithmetic of tree invariants,
//! exhaustive enumeration of small lexer updates).  It contains no model of the code under test.
use serde_json::{json, Value};
use spl_frontend::{
    ast::*,
    error::SplError,
    lexer, parser,
    table::{GlobalEntry, GlobalTable, LocalEntry},
    tokens::{IntResult, Token, TokenChange, TokenType},
    AnalyzedSource, ErrorContainer, TextChange, ToRange,
};
use std::cell::RefCell;
use std::io::{BufRead, Write};
use std::panic::{self, AssertUnwindSafe};

thread_local! { static LAST_PANIC: RefCell<Option<(String, String)>> = RefCell::new(None); }

fn catch<T>(f: impl FnOnce() -> T) -> Result<T, Value> {
    LAST_PANIC.with(|p| *p.borrow_mut() = None);
    match panic::catch_unwind(AssertUnwindSafe(f)) {
        Ok(v) => Ok(v),
        Err(_) => {
            let (msg, loc) = LAST_PANIC.with(|p| p.borrow_mut().take()).unwrap_or_default();
            Err(json!({"message": msg, "location": loc}))
        }
    }
}

// ------------------------------------------------------------------------------------------ tokens
fn token_json(t: &Token) -> Value {
    let (k, v): (String, Value) = match &t.token_type {
        TokenType::Ident(s) => ("ident".into(), json!(s)),
        TokenType::Char(c) => ("char".into(), json!(*c as u32)),
        TokenType::Int(IntResult::Int(i)) => ("int".into(), json!(i)),
        TokenType::Int(IntResult::Err(_)) => ("int".into(), Value::Null),
        TokenType::Hex(IntResult::Int(i)) => ("hex".into(), json!(i)),
        TokenType::Hex(IntResult::Err(_)) => ("hex".into(), Value::Null),
        TokenType::Comment(s) => ("comment".into(), json!(s)),
        TokenType::Unknown(s) => ("unknown".into(), json!(s)),
        TokenType::Eof => ("eof".into(), Value::Null),
        other => (other.to_string(), Value::Null),
    };
    let errs: Vec<Value> = t
        .errors
        .iter()
        .map(|e| json!([e.0.start, e.0.end, e.1.to_string().trim_end()]))
        .collect();
    json!([k, v, t.range.start, t.range.end, errs])
}

fn tokens_json(ts: &[Token]) -> Value {
    Value::Array(ts.iter().map(token_json).collect())
}

// ------------------------------------------------------------------------------------------ tree dump
struct Flat {
    kind: &'static str,
    a: usize,
    b: usize,
    attr: Value,
    errs: Vec<(usize, usize, String)>,
    parent: isize,
}

#[derive(Default)]
struct Walker {
    out: Vec<Flat>,
}

impl Walker {
    fn push(&mut self, kind: &'static str, info: &AstInfo, base: usize, attr: Value, parent: isize) -> isize {
        let errs = info
            .errors
            .iter()
            .map(|e| (base + e.0.start, base + e.0.end, e.1.to_string().trim_end().to_string()))
            .collect();
        self.out.push(Flat {
            kind,
            a: base + info.range.start,
            b: base + info.range.end,
            attr,
            errs,
            parent,
        });
        (self.out.len() - 1) as isize
    }

    fn program(&mut self, p: &Program) {
        let me = self.push("Program", &p.info, 0, Value::Null, -1);
        for gd in &p.global_declarations {
            let base = gd.offset;
            match gd.as_ref() {
                GlobalDeclaration::Type(td) => {
                    let n = self.push("TypeDeclaration", &td.info, base, json!(td.doc), me);
                    if let Some(name) = &td.name {
                        self.push("Identifier", &name.info, base, json!(name.value), n);
                    }
                    if let Some(te) = &td.type_expr {
                        self.type_expr(te, base + te.offset, n);
                    }
                }
                GlobalDeclaration::Procedure(pd) => self.procedure(pd, base, me),
                GlobalDeclaration::Error(info) => {
                    self.push("GlobalError", info, base, Value::Null, me);
                }
            }
        }
    }

    fn procedure(&mut self, pd: &ProcedureDeclaration, base: usize, parent: isize) {
        let n = self.push("ProcedureDeclaration", &pd.info, base, json!(pd.doc), parent);
        if let Some(name) = &pd.name {
            self.push("Identifier", &name.info, base, json!(name.value), n);
        }
        for p in &pd.parameters {
            let b = base + p.offset;
            match p.as_ref() {
                ParameterDeclaration::Valid { doc, is_ref, name, type_expr, info } => {
                    let m = self.push("Parameter", info, b, json!([is_ref, doc]), n);
                    if let Some(name) = name {
                        self.push("Identifier", &name.info, b, json!(name.value), m);
                    }
                    if let Some(te) = type_expr {
                        self.type_expr(te, b + te.offset, m);
                    }
                }
                ParameterDeclaration::Error(info) => {
                    self.push("ParameterError", info, b, Value::Null, n);
                }
            }
        }
        for v in &pd.variable_declarations {
            let b = base + v.offset;
            match v.as_ref() {
                VariableDeclaration::Valid { doc, name, type_expr, info } => {
                    let m = self.push("Variable", info, b, json!(doc), n);
                    if let Some(name) = name {
                        self.push("Identifier", &name.info, b, json!(name.value), m);
                    }
                    if let Some(te) = type_expr {
                        self.type_expr(te, b + te.offset, m);
                    }
                }
                VariableDeclaration::Error(info) => {
                    self.push("VariableError", info, b, Value::Null, n);
                }
            }
        }
        for s in &pd.statements {
            self.stmt(s.as_ref(), base + s.offset, n);
        }
    }

    fn type_expr(&mut self, te: &TypeExpression, base: usize, parent: isize) {
        match te {
            TypeExpression::NamedType(id) => {
                self.push("NamedType", &id.info, base, json!(id.value), parent);
            }
            TypeExpression::ArrayType { size, base_type, info } => {
                let n = self.push("ArrayType", info, base, Value::Null, parent);
                if let Some(sz) = size {
                    self.push("IntLiteral", &sz.info, base, json!(sz.value), n);
                }
                if let Some(bt) = base_type {
                    self.type_expr(bt.as_ref().as_ref(), base + bt.offset, n);
                }
            }
        }
    }

    fn variable(&mut self, v: &Variable, base: usize, parent: isize) {
        match v {
            Variable::NamedVariable(id) => {
                self.push("NamedVariable", &id.info, base, json!(id.value), parent);
            }
            Variable::ArrayAccess(a) => {
                let n = self.push("ArrayAccess", &a.info, base, Value::Null, parent);
                self.variable(&a.array, base, n);
                if let Some(ix) = &a.index {
                    self.expr(ix.as_ref().as_ref(), base + ix.offset, n);
                }
            }
        }
    }

    fn expr(&mut self, e: &Expression, base: usize, parent: isize) {
        match e {
            Expression::Binary(b) => {
                let n = self.push("Binary", &b.info, base, json!(format!("{:?}", b.operator)), parent);
                self.expr(&b.lhs, base, n);
                self.expr(&b.rhs, base, n);
            }
            Expression::Bracketed(b) => {
                let n = self.push("Bracketed", &b.info, base, Value::Null, parent);
                self.expr(&b.expr, base, n);
            }
            Expression::IntLiteral(i) => {
                self.push("IntLiteral", &i.info, base, json!(i.value), parent);
            }
            Expression::Unary(u) => {
                let n = self.push("Unary", &u.info, base, json!(format!("{:?}", u.operator)), parent);
                self.expr(&u.expr, base, n);
            }
            Expression::Variable(v) => self.variable(v, base, parent),
            Expression::Error(info) => {
                self.push("ExprError", info, base, Value::Null, parent);
            }
        }
    }

    fn stmt(&mut self, s: &Statement, base: usize, parent: isize) {
        match s {
            Statement::Empty(info) => {
                self.push("Empty", info, base, Value::Null, parent);
            }
            Statement::Error(info) => {
                self.push("StmtError", info, base, Value::Null, parent);
            }
            Statement::Assignment(a) => {
                let n = self.push("Assignment", &a.info, base, Value::Null, parent);
                self.variable(&a.variable, base, n);
                if let Some(e) = &a.expr {
                    self.expr(e.as_ref(), base + e.offset, n);
                }
            }
            Statement::Call(c) => {
                let n = self.push("Call", &c.info, base, Value::Null, parent);
                self.push("Identifier", &c.name.info, base, json!(c.name.value), n);
                for a in &c.arguments {
                    self.expr(a.as_ref(), base + a.offset, n);
                }
            }
            Statement::If(i) => {
                let n = self.push("If", &i.info, base, Value::Null, parent);
                if let Some(c) = &i.condition {
                    self.expr(c.as_ref(), base + c.offset, n);
                }
                if let Some(b) = &i.if_branch {
                    self.stmt(b.as_ref().as_ref(), base + b.offset, n);
                }
                if let Some(b) = &i.else_branch {
                    self.stmt(b.as_ref().as_ref(), base + b.offset, n);
                }
            }
            Statement::While(w) => {
                let n = self.push("While", &w.info, base, Value::Null, parent);
                if let Some(c) = &w.condition {
                    self.expr(c.as_ref(), base + c.offset, n);
                }
                if let Some(b) = &w.statement {
                    self.stmt(b.as_ref().as_ref(), base + b.offset, n);
                }
            }
            Statement::Block(b) => {
                let n = self.push("Block", &b.info, base, Value::Null, parent);
                for s in &b.statements {
                    self.stmt(s.as_ref(), base + s.offset, n);
                }
            }
        }
    }
}

fn flat(p: &Program) -> Vec<Flat> {
    let mut w = Walker::default();
    w.program(p);
    w.out
}

fn tree_json(f: &[Flat]) -> Value {
    Value::Array(
        f.iter()
            .map(|n| {
                let errs: Vec<Value> = n.errs.iter().map(|e| json!([e.0, e.1, e.2])).collect();
                json!([n.kind, n.a, n.b, n.attr, errs, n.parent])
            })
            .collect(),
    )
}

// ------------------------------------------------------------------------------------------ table dump
fn table_json(t: &GlobalTable, program: &Program) -> Value {
    // entry -> [name, kind, range start, range end, debug text without the absolute range, declared (not predefined)]
    let declared: Vec<(usize, usize)> = program
        .global_declarations
        .iter()
        .map(|gd| {
            let r = gd.to_range();
            (r.start + gd.offset, r.end + gd.offset)
        })
        .collect();
    let mut out: Vec<Value> = t
        .entries
        .iter()
        .map(|(name, e)| {
            let r = e.to_range();
            let (kind, dbg) = match e {
                GlobalEntry::Type(t) => {
                    let mut c = t.clone();
                    c.range = 0..0;
                    ("type", format!("{:?}", c))
                }
                GlobalEntry::Procedure(p) => {
                    let mut c = p.clone();
                    c.range = 0..0;
                    // HashMap order is not deterministic: print the local table sorted
                    let mut locals: Vec<String> = c.local_table.entries.iter().map(|(k, v)| format!("{}={:?}", k, v)).collect();
                    locals.sort();
                    c.local_table.entries.clear();
                    ("proc", format!("{:?} locals={:?}", c, locals))
                }
            };
            let is_declared = declared.contains(&(r.start, r.end)) && !(r.start == 0 && r.end == 0);
            json!([name, kind, r.start, r.end, dbg, is_declared])
        })
        .collect();
    out.sort_by(|a, b| a[0].as_str().cmp(&b[0].as_str()));
    Value::Array(out)
}

// ------------------------------------------------------------------------------------------ invariants
/// Tree well-formedness: the facts request handlers rely on when they slice `tokens` with tree/table ranges.
fn invariants(src: &AnalyzedSource) -> Vec<String> {
    let mut bad = Vec::new();
    let n = src.tokens.len();
    let f = flat(&src.ast);
    for (i, node) in f.iter().enumerate() {
        if !(node.a <= node.b && node.b <= n) {
            bad.push(format!("node {} {} range {}..{} outside 0..{}", i, node.kind, node.a, node.b, n));
            continue;
        }
        if node.parent >= 0 {
            let p = &f[node.parent as usize];
            if !(p.a <= node.a && node.b <= p.b) {
                bad.push(format!(
                    "node {} {} {}..{} not inside parent {} {}..{}",
                    i, node.kind, node.a, node.b, p.kind, p.a, p.b
                ));
            }
        }
        for e in &node.errs {
            if !(e.0 <= e.1 && e.1 <= n) {
                bad.push(format!("error range {}..{} of node {} {} outside 0..{}", e.0, e.1, i, node.kind, n));
            }
        }
        match node.kind {
            "Identifier" | "NamedType" | "NamedVariable" => {
                let ok = node.b > node.a
                    && matches!(&src.tokens[node.b - 1].token_type, TokenType::Ident(s) if json!(s) == node.attr)
                    && src.tokens[node.a..node.b - 1].iter().all(|t| matches!(t.token_type, TokenType::Comment(_)));
                if !ok {
                    bad.push(format!("{} {} at {}..{} does not end on its identifier token", node.kind, node.attr, node.a, node.b));
                }
            }
            "IntLiteral" => {
                let lits = src.tokens[node.a..node.b]
                    .iter()
                    .filter(|t| !matches!(t.token_type, TokenType::Comment(_)))
                    .collect::<Vec<_>>();
                let ok = lits.len() == 1
                    && matches!(lits[0].token_type, TokenType::Int(_) | TokenType::Hex(_) | TokenType::Char(_));
                if !ok {
                    bad.push(format!("IntLiteral at {}..{} does not cover exactly one literal token", node.a, node.b));
                }
            }
            _ => {}
        }
    }
    // table entries resolve to their declaring tokens
    for (name, e) in &src.table.entries {
        let r = e.to_range();
        if r.start == 0 && r.end == 0 {
            continue; // predefined
        }
        if !(r.start <= r.end && r.end <= n) {
            bad.push(format!("table entry {} range {}..{} outside tokens", name, r.start, r.end));
            continue;
        }
        let name_ident = match e {
            GlobalEntry::Type(t) => &t.name,
            GlobalEntry::Procedure(p) => &p.name,
        };
        let pos = r.start + name_ident.to_range().end;
        let ok = pos >= 1 && pos <= n && matches!(&src.tokens[pos - 1].token_type, TokenType::Ident(s) if s == name);
        if !ok {
            bad.push(format!("table entry {}: name range does not resolve to its identifier", name));
        }
        if let GlobalEntry::Procedure(p) = e {
            for (lname, le) in &p.local_table.entries {
                let v = match le {
                    LocalEntry::Variable(v) | LocalEntry::Parameter(v) => v,
                };
                let pos = r.start + v.range.start + v.name.to_range().end;
                let ok = pos >= 1
                    && pos <= n
                    && r.start + v.range.end <= r.end
                    && matches!(&src.tokens[pos - 1].token_type, TokenType::Ident(s) if s == lname);
                if !ok {
                    bad.push(format!("local entry {}.{}: name range does not resolve to its identifier", name, lname));
                }
            }
        }
    }
    // every error can be converted to a text range inside the text
    match catch(|| src.errors()) {
        Ok(errs) => {
            for e in errs {
                if !(e.0.start <= e.0.end && e.0.end <= src.text.len()) {
                    bad.push(format!("errors(): range {}..{} outside text of {} bytes", e.0.start, e.0.end, src.text.len()));
                }
            }
        }
        Err(p) => bad.push(format!("errors() panicked: {}", p)),
    }
    bad
}

fn class_of(m: &spl_frontend::error::ErrorMessage) -> &'static str {
    use spl_frontend::error::ErrorMessage::*;
    match m {
        LexErrorMessage(_) => "lex",
        ParseErrorMessage(_) => "parse",
        BuildErrorMessage(_) => "build",
        SemanticErrorMessage(_) => "semantic",
    }
}

fn errors_json(errs: &[SplError]) -> Value {
    Value::Array(errs.iter().map(|e| json!([e.0.start, e.0.end, e.1.to_string().trim_end(), class_of(&e.1)])).collect())
}

// ------------------------------------------------------------------------------------------ ops
fn changes_of(v: &Value) -> Vec<TextChange> {
    v.as_array()
        .map(|a| {
            a.iter()
                .map(|c| TextChange {
                    range: (c[0].as_u64().unwrap() as usize)..(c[1].as_u64().unwrap() as usize),
                    text: c[2].as_str().unwrap().to_string(),
                })
                .collect()
        })
        .unwrap_or_default()
}

fn first_tree_diff(a: &Program, b: &Program) -> Value {
    let fa = flat(a);
    let fb = flat(b);
    for (i, (x, y)) in fa.iter().zip(fb.iter()).enumerate() {
        if x.kind != y.kind || x.a != y.a || x.b != y.b || x.attr != y.attr || x.errs != y.errs {
            return json!({"index": i, "updated": [x.kind, x.a, x.b, x.attr, format!("{:?}", x.errs)], "fresh": [y.kind, y.a, y.b, y.attr, format!("{:?}", y.errs)]});
        }
    }
    if fa.len() != fb.len() {
        return json!({"index": fa.len().min(fb.len()), "updated_nodes": fa.len(), "fresh_nodes": fb.len()});
    }
    json!({"note": "flat dumps equal; difference is in relative offsets/ranges only"})
}

fn analyze_json(src: &AnalyzedSource, want_tree: bool, want_table: bool, want_tokens: bool) -> Value {
    let mut o = serde_json::Map::new();
    match catch(|| src.errors()) {
        Ok(e) => {
            o.insert("errors".into(), errors_json(&e));
        }
        Err(p) => {
            o.insert("errors_panic".into(), p);
        }
    }
    let lex_errs: Vec<SplError> = src.tokens.iter().flat_map(|t| t.errors.clone()).collect();
    o.insert("lex_errors".into(), errors_json(&lex_errs));
    o.insert("ntokens".into(), json!(src.tokens.len()));
    if want_tree {
        o.insert("tree".into(), tree_json(&flat(&src.ast)));
    }
    if want_table {
        o.insert("table".into(), table_json(&src.table, &src.ast));
    }
    if want_tokens {
        o.insert("tokens".into(), tokens_json(&src.tokens));
    }
    Value::Object(o)
}

fn op_history(req: &Value) -> Value {
    let text0 = req["text"].as_str().unwrap_or("").to_string();
    let want_inv = req["inv"].as_bool().unwrap_or(true);
    // judge = "valid": compare only after steps whose text is lexically and syntactically valid (typing passes through broken states)
    let only_valid = req["judge"].as_str() == Some("valid");
    let mut judged = 0usize;
    let mut cur = match catch(|| AnalyzedSource::new(text0.clone())) {
        Ok(a) => a,
        Err(p) => return json!({"steps_done": 0, "fresh_panic": p, "step": -1}),
    };
    let _ = spl_frontend::verif::take_counters();
    let mut text = text0;
    let mut windows = Vec::new();
    let mut counters = (0usize, 0usize, 0usize);
    let steps = req["steps"].as_array().cloned().unwrap_or_default();
    for (k, step) in steps.iter().enumerate() {
        let changes = changes_of(step);
        // evidence: shape of the token change of every single change (public lexer API on a copy)
        {
            let mut t = text.clone();
            let mut toks = cur.tokens.clone();
            for c in &changes {
                if c.range.start > c.range.end || c.range.end > t.len() || !t.is_char_boundary(c.range.start) || !t.is_char_boundary(c.range.end) {
                    return json!({"steps_done": k, "harness_error": format!("bad change {:?} for text of {} bytes", c.range, t.len())});
                }
                t.replace_range(c.range.clone(), &c.text);
                if let Ok((nt, tc)) = catch(|| lexer::update(&t, toks.clone(), c)) {
                    windows.push(json!([tc.deletion_range.start, tc.deletion_range.end, tc.insertion_len]));
                    toks = nt;
                } else {
                    break;
                }
            }
            text = t;
        }
        let prev = cur.clone();
        let upd = catch(move || prev.update(changes));
        let c = spl_frontend::verif::take_counters();
        counters = (counters.0 + c.0, counters.1 + c.1, counters.2 + c.2);
        let upd = match upd {
            Ok(u) => u,
            Err(p) => return json!({"steps_done": k, "update_panic": p, "step": k, "windows": windows}),
        };
        let fresh = match catch(|| AnalyzedSource::new(text.clone())) {
            Ok(a) => a,
            Err(p) => return json!({"steps_done": k, "fresh_panic": p, "step": k}),
        };
        let _ = spl_frontend::verif::take_counters();
        if only_valid {
            let broken = match catch(|| fresh.errors()) {
                Ok(e) => e.iter().any(|e| matches!(class_of(&e.1), "lex" | "parse")),
                Err(p) => return json!({"steps_done": k, "fresh_panic": p, "step": k}),
            };
            if broken {
                cur = upd;
                continue;
            }
        }
        judged += 1;
        let mut what = Vec::new();
        let mut detail = serde_json::Map::new();
        if upd.text != fresh.text {
            what.push("text");
        }
        if upd.tokens != fresh.tokens {
            what.push("tokens");
            let i = upd.tokens.iter().zip(&fresh.tokens).position(|(x, y)| x != y).unwrap_or(upd.tokens.len().min(fresh.tokens.len()));
            detail.insert("token_index".into(), json!(i));
            detail.insert("updated_token".into(), upd.tokens.get(i).map(token_json).unwrap_or(Value::Null));
            detail.insert("fresh_token".into(), fresh.tokens.get(i).map(token_json).unwrap_or(Value::Null));
        }
        if upd.ast != fresh.ast {
            what.push("ast");
            detail.insert("tree_diff".into(), first_tree_diff(&upd.ast, &fresh.ast));
        }
        if upd.table != fresh.table {
            what.push("table");
        }
        let eu = catch(|| upd.errors());
        let ef = catch(|| fresh.errors());
        match (&eu, &ef) {
            (Ok(a), Ok(b)) => {
                if a != b {
                    what.push("errors");
                    detail.insert("updated_errors".into(), errors_json(a));
                    detail.insert("fresh_errors".into(), errors_json(b));
                }
            }
            (Err(p), Ok(_)) => {
                what.push("errors-panic");
                detail.insert("errors_panic".into(), p.clone());
            }
            (_, Err(p)) => return json!({"steps_done": k, "fresh_panic": p, "step": k}),
        }
        if want_inv {
            let bad = invariants(&upd);
            if !bad.is_empty() {
                what.push("invariants");
                detail.insert("invariants".into(), json!(bad));
            }
        }
        if !what.is_empty() {
            return json!({"steps_done": k + 1, "div": {"step": k, "what": what, "detail": detail}, "windows": windows, "judged": judged,
                          "counters": [counters.0, counters.1, counters.2]});
        }
        cur = upd;
    }
    json!({"steps_done": steps.len(), "div": Value::Null, "windows": windows, "judged": judged, "counters": [counters.0, counters.1, counters.2],
           "final_errors": catch(|| cur.errors()).map(|e| json!(e.len())).unwrap_or(Value::Null)})
}

/// window truthfulness of one lexer update (C07): returns a description of what is wrong, if anything
fn check_lex_update(old_text: &str, old: &[Token], change: &TextChange) -> Result<(TokenChange, usize), Value> {
    let mut nt = old_text.to_string();
    nt.replace_range(change.range.clone(), &change.text);
    let fresh = lexer::lex(&nt);
    let o2 = old.to_vec();
    let (toks, tc) = match catch(|| lexer::update(&nt, o2, change)) {
        Ok(r) => r,
        Err(p) => return Err(json!({"kind": "panic", "panic": p})),
    };
    if toks != fresh {
        let i = toks.iter().zip(&fresh).position(|(x, y)| x != y).unwrap_or(toks.len().min(fresh.len()));
        return Err(json!({"kind": "tokens", "index": i, "updated": toks.get(i).map(token_json), "fresh": fresh.get(i).map(token_json),
                          "updated_len": toks.len(), "fresh_len": fresh.len()}));
    }
    let d = tc.deletion_range.clone();
    let ins = tc.insertion_len;
    let off = change.text.len() as isize - change.range.len() as isize;
    if !(d.start <= d.end && d.end <= old.len() && d.start + ins <= toks.len()) {
        return Err(json!({"kind": "window-bounds", "window": [d.start, d.end, ins], "old_len": old.len(), "new_len": toks.len()}));
    }
    if old[..d.start] != toks[..d.start] {
        return Err(json!({"kind": "window-head", "window": [d.start, d.end, ins]}));
    }
    let shifted: Vec<Token> = old[d.end..]
        .iter()
        .cloned()
        .map(|t| Token {
            range: ((t.range.start as isize + off) as usize)..((t.range.end as isize + off) as usize),
            errors: t
                .errors
                .into_iter()
                .map(|e| SplError(((e.0.start as isize + off) as usize)..((e.0.end as isize + off) as usize), e.1))
                .collect(),
            ..t
        })
        .collect();
    if shifted != toks[d.start + ins..] {
        return Err(json!({"kind": "window-tail", "window": [d.start, d.end, ins], "old_len": old.len(), "new_len": toks.len()}));
    }
    Ok((tc, toks.len()))
}

fn strings(alpha: &[String], maxlen: usize) -> Vec<String> {
    let mut out = vec![String::new()];
    let mut frontier = vec![String::new()];
    for _ in 0..maxlen {
        let mut next = Vec::new();
        for s in &frontier {
            for a in alpha {
                let mut t = s.clone();
                t.push_str(a);
                next.push(t);
            }
        }
        out.extend(next.iter().cloned());
        frontier = next;
    }
    out
}

fn bounds(s: &str) -> Vec<usize> {
    let mut v: Vec<usize> = s.char_indices().map(|(i, _)| i).collect();
    v.push(s.len());
    v
}

fn op_c07enum(req: &Value) -> Value {
    let l = req["L"].as_u64().unwrap_or(3) as usize;
    let r = req["R"].as_u64().unwrap_or(1) as usize;
    let shard = req["shard"].as_u64().unwrap_or(0) as usize;
    let nshards = req["nshards"].as_u64().unwrap_or(1) as usize;
    let alpha: Vec<String> = req["alphabet"].as_array().unwrap().iter().map(|v| v.as_str().unwrap().to_string()).collect();
    let keep = req["keep"].as_u64().unwrap_or(5) as usize;
    let texts = strings(&alpha, l);
    let repls = strings(&alpha, r);
    let mut cases = 0u64;
    let mut bad = 0u64;
    let mut failures = Vec::new();
    let mut shapes: std::collections::BTreeMap<(usize, usize), u64> = Default::default();
    let mut nontrivial = 0u64;
    for (ti, t) in texts.iter().enumerate() {
        if ti % nshards != shard {
            continue;
        }
        let old = lexer::lex(t);
        let b = bounds(t);
        for i in 0..b.len() {
            for j in i..b.len() {
                for rep in &repls {
                    if i == j && rep.is_empty() {
                        continue;
                    }
                    cases += 1;
                    let ch = TextChange { range: b[i]..b[j], text: rep.clone() };
                    match check_lex_update(t, &old, &ch) {
                        Ok((tc, _)) => {
                            *shapes.entry((tc.deletion_range.len(), tc.insertion_len)).or_default() += 1;
                            if tc.deletion_range.start > 0 || tc.deletion_range.end < old.len() - 1 {
                                nontrivial += 1; // some old token was really kept
                            }
                        }
                        Err(mut e) => {
                            bad += 1;
                            if failures.len() < keep {
                                e["text"] = json!(t);
                                e["change"] = json!([ch.range.start, ch.range.end, ch.text]);
                                failures.push(e);
                            }
                        }
                    }
                }
            }
        }
    }
    let shapes: Vec<Value> = shapes.into_iter().map(|((d, i), c)| json!([d, i, c])).collect();
    json!({"texts": texts.len(), "cases": cases, "bad": bad, "failures": failures, "shapes": shapes, "kept_some_old_token": nontrivial})
}

fn handle(req: &Value) -> Value {
    match req["op"].as_str().unwrap_or("") {
        "ping" => json!({"pong": true}),
        "lex" => {
            let text = req["text"].as_str().unwrap_or("");
            match catch(|| lexer::lex(text)) {
                Ok(t) => json!({"tokens": tokens_json(&t)}),
                Err(p) => json!({"panic": p}),
            }
        }
        "lexmany" => {
            let texts = req["texts"].as_array().cloned().unwrap_or_default();
            let out: Vec<Value> = texts
                .iter()
                .map(|t| {
                    let text = t.as_str().unwrap_or("");
                    match catch(|| lexer::lex(text)) {
                        Ok(t) => tokens_json(&t),
                        Err(p) => json!({"panic": p}),
                    }
                })
                .collect();
            json!({"results": out})
        }
        "lexvia" => {
            // the token sequence of a text that was reached by one change: lex(old text), then lexer::update with [a, e, new] (byte offsets)
            let items = req["items"].as_array().cloned().unwrap_or_default();
            let out: Vec<Value> = items
                .iter()
                .map(|it| {
                    let old = it[0].as_str().unwrap_or("").to_string();
                    let change = TextChange {
                        range: (it[1].as_u64().unwrap_or(0) as usize)..(it[2].as_u64().unwrap_or(0) as usize),
                        text: it[3].as_str().unwrap_or("").to_string(),
                    };
                    if change.range.start > change.range.end || change.range.end > old.len() || !old.is_char_boundary(change.range.start) || !old.is_char_boundary(change.range.end) {
                        return json!({"harness_error": "bad change"});
                    }
                    let mut new = old.clone();
                    new.replace_range(change.range.clone(), &change.text);
                    match catch(|| {
                        let toks = lexer::lex(&old);
                        lexer::update(&new, toks, &change).0
                    }) {
                        Ok(t) => tokens_json(&t),
                        Err(p) => json!({"panic": p}),
                    }
                })
                .collect();
            json!({"results": out})
        }
        "parse" => {
            // parser::parse(lexer::lex(text)) only: the syntax tree without table or semantic phase
            let text = req["text"].as_str().unwrap_or("");
            match catch(|| {
                let tokens = lexer::lex(text);
                let program = parser::parse(&tokens);
                (tokens, program)
            }) {
                Ok((tokens, program)) => {
                    let mut o = json!({"tree": tree_json(&flat(&program)), "ntokens": tokens.len()});
                    if req["tokens"].as_bool().unwrap_or(false) {
                        o["tokens"] = tokens_json(&tokens);
                    }
                    o
                }
                Err(p) => json!({"panic": p}),
            }
        }
        "analyze" => {
            let text = req["text"].as_str().unwrap_or("").to_string();
            match catch(|| AnalyzedSource::new(text)) {
                Ok(src) => {
                    let mut o = analyze_json(
                        &src,
                        req["tree"].as_bool().unwrap_or(false),
                        req["table"].as_bool().unwrap_or(false),
                        req["tokens"].as_bool().unwrap_or(false),
                    );
                    if req["inv"].as_bool().unwrap_or(false) {
                        o["invariants"] = json!(invariants(&src));
                    }
                    o
                }
                Err(p) => json!({"panic": p}),
            }
        }
        "history" => op_history(req),
        "lexupd" => {
            let text = req["text"].as_str().unwrap_or("");
            let ch = &changes_of(&json!([req["change"].clone()]))[0];
            let old = lexer::lex(text);
            match check_lex_update(text, &old, ch) {
                Ok((tc, n)) => json!({"ok": true, "window": [tc.deletion_range.start, tc.deletion_range.end, tc.insertion_len], "old_len": old.len(), "new_len": n}),
                Err(e) => json!({"ok": false, "failure": e}),
            }
        }
        "lexchain" => {
            // chain of updates, each applied to the *updated* tokens of its predecessor
            let mut text = req["text"].as_str().unwrap_or("").to_string();
            let mut toks = lexer::lex(&text);
            let changes = changes_of(&req["changes"]);
            let mut windows = Vec::new();
            for (k, ch) in changes.iter().enumerate() {
                match check_lex_update(&text, &toks, ch) {
                    Ok((tc, _)) => {
                        windows.push(json!([tc.deletion_range.start, tc.deletion_range.end, tc.insertion_len, toks.len()]));
                        text.replace_range(ch.range.clone(), &ch.text);
                        toks = lexer::update(&text, toks, ch).0;
                    }
                    Err(e) => return json!({"ok": false, "step": k, "failure": e, "text": text, "windows": windows}),
                }
            }
            json!({"ok": true, "windows": windows})
        }
        "c07enum" => op_c07enum(req),
        _ => json!({"error": "unknown op"}),
    }
}

fn main() {
    panic::set_hook(Box::new(|info| {
        let msg = info
            .payload()
            .downcast_ref::<String>()
            .cloned()
            .or_else(|| info.payload().downcast_ref::<&str>().map(|s| s.to_string()))
            .unwrap_or_default();
        let loc = info.location().map(|l| format!("{}:{}", l.file(), l.line())).unwrap_or_default();
        LAST_PANIC.with(|p| {
            let mut p = p.borrow_mut();
            if p.is_none() {
                *p = Some((msg, loc));
            }
        });
    }));
    // `--selftest N`: a small fixed workload without I/O, meant to be run under Miri (undefined behaviour in code the
    // front end reaches, e.g. the pointer arithmetic of TokenStream) - a smoke test, never a verdict on its own
    let args: Vec<String> = std::env::args().collect();
    if args.len() >= 2 && args[1] == "--selftest" {
        let n: usize = args.get(2).and_then(|s| s.parse().ok()).unwrap_or(10);
        let cases: [(&str, usize, usize, &str); 10] = [
            ("a/", 2, 2, "/"), ("if x", 2, 2, "f"), ("0 x1", 1, 2, ""), ("'a", 2, 2, "'"), ("proc main() { x := 1; }", 14, 14, "y := 2; "),
            ("// c", 4, 4, "\nx"), ("a <= b", 3, 4, ""), ("0x", 2, 2, "1F"), ("type T = int;", 5, 6, "Ty"), ("x\u{e9}y", 1, 3, ""),
        ];
        let mut bad = 0;
        for (text, a, b, rep) in cases.iter().cycle().take(n) {
            let old = lexer::lex(text);
            let ch = TextChange { range: *a..*b, text: rep.to_string() };
            if check_lex_update(text, &old, &ch).is_err() { bad += 1; }
        }
        let hist = json!({"text": "type T = array [3] of int;\n// doc\nproc main() {\n  var a: T;\n  a[0] := 1;\n  if (a[0] < 2) { printi(a[0]); } else ;\n}\n",
                          "steps": [[[63, 63, "a[1] := a[0] + 2;\n  "]], [[27, 34, ""]], [[0, 0, "// top\n"]]]});
        let r = op_history(&hist);
        if !r["div"].is_null() || r.get("update_panic").is_some() { bad += 1; }
        println!("selftest cases={} history_steps={} bad={}", n, r["steps_done"], bad);
        std::process::exit(if bad == 0 { 0 } else { 1 });
    }
    let stdin = std::io::stdin();
    let stdout = std::io::stdout();
    let mut out = stdout.lock();
    for line in stdin.lock().lines() {
        let line = match line {
            Ok(l) => l,
            Err(_) => break,
        };
        if line.trim().is_empty() {
            continue;
        }
        let resp = match serde_json::from_str::<Value>(&line) {
            Ok(req) => match panic::catch_unwind(AssertUnwindSafe(|| handle(&req))) {
                Ok(v) => v,
                Err(_) => json!({"adaptor_panic": LAST_PANIC.with(|p| p.borrow_mut().take()).map(|(m, l)| format!("{} @ {}", m, l))}),
            },
            Err(e) => json!({"error": format!("bad request: {}", e)}),
        };
        let _ = writeln!(out, "{}", resp);
        let _ = out.flush();
    }
}
