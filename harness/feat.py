"""Shared plumbing of the feature checks (C09-C17): generated programs opened in the real server, crash attribution."""
import random
from .core import Part, server_bin, load_findings
from .client import Server, ServerDied, Timeout, FrameError, tdp, panic_signature
from . import gen, layout


class Session:
    """one server process per worker; every document gets its own URI and is closed again"""
    def __init__(s, variant="rel", diagnostics=True):
        s.variant = variant; s.diagnostics = diagnostics; s.srv = None; s.n = 0; s.deaths = 0

    def server(s):
        if s.srv is None or not s.srv.alive():
            s.srv = Server(server_bin(s.variant), diagnostics=s.diagnostics)
        return s.srv

    def open(s, text, tag="doc"):
        s.n += 1
        uri = "file:///verif/%s%d.spl" % (tag, s.n)
        srv = s.server(); srv.drop_notes(); srv.open(uri, text)
        return uri

    def close(s, uri):
        if s.srv is not None and s.srv.alive(): s.srv.close_doc(uri)

    def req(s, method, params, timeout=20):
        return s.server().request(method, params, timeout)

    def result(s, method, params):
        """result of a request; an error response is returned as {"__error__": ...}"""
        r = s.req(method, params)
        if "error" in r: return {"__error__": r["error"]}
        return r.get("result")

    def kill(s):
        if s.srv is not None: s.srv.kill()
        s.srv = None


def died(part, e, what, scenario, sess):
    """a request killed the server or went unanswered: that refutes the property under test for this input as well (no answer = wrong answer)"""
    sess.deaths += 1
    if isinstance(e, ServerDied): desc = "server died (status %s, %s)" % (e.status, panic_signature(e.stderr),)
    else: desc = "%s: %s" % (type(e).__name__, e)
    part.fail("%s: %s" % (what, desc), scenario)
    sess.kill()


def program(rng, **opts):
    """(P, text, Text) of a generated well-typed program under a random layout"""
    o = dict(size=rng.choice([1, 2, 3, 4, 6]), depth=rng.choice([1, 2, 3]), edepth=rng.choice([1, 2, 3]))
    o.update(opts)
    seed = rng.getrandbits(32)
    gap = o.pop("gap_comments", .3)
    P = gen.generate(seed, **o)
    if rng.random() < gap:
        # comment lines in arbitrary token gaps (between a keyword and a name, inside expressions, before separators ...)
        n = 0
        for t in list(P.toks):
            if t.kind != "comment" and rng.random() < .08:
                for _ in range(rng.choice([1, 1, 1, 2, 3])):
                    n += 1; t.lead.append(gen.Tok("comment", "// gap %d %s" % (n, rng.choice(["", "ü€", "a, b", "x := 1;", "a\rb := 1;"]))))
        P.index()
    eol = rng.choice(["\n", "\n", "\r\n"])
    style = rng.choice(["random", "random", "spaced", "compact", "lines"])
    stray = style == "random" and rng.random() < .25      # lone carriage returns: line breaks for LSP positions, white space for SPL
    text = layout.layout(P, rng, style, eol, final=rng.choice([None, "", eol] + (["\r"] if stray else [])), stray_cr=stray)
    return P, text, layout.Text(text)


def rng_of(T, tok): return T.rng(tok.start, tok.end)


def rkey(r): return (r["start"]["line"], r["start"]["character"], r["end"]["line"], r["end"]["character"])


def columns(rng, T, tok, which="fml"):
    """cursor positions inside a token: first, middle, last character"""
    l, c = T.pos(tok.start)
    n = len(tok.text)
    cols = {"f": 0, "m": n // 2, "l": n - 1}
    return sorted(set((l, c + cols[w]) for w in which))


def bkey(b):
    """identity of a binding"""
    return id(b) if isinstance(b, gen.Decl) else b


def idents(P): return [t for t in P.toks if t.kind == "id"]


def proc_of_tokens(P):
    """token uid -> enclosing procedure declaration"""
    m = {}
    for p in P.procs:
        for t in gen.walk_toks(p.node): m[t.uid] = p
    return m


def shadowing_local(P, tok, pmap_=None):
    """Known-finding class K-C1x-shadow: an identifier that denotes a global entity *by its position* - a type name in type position, or
    the procedure's own name in its header - inside a procedure that has a parameter or local variable of the same name. The request
    handlers look every identifier up locals-first without regard to its position and answer for the local. Returns that local, or None."""
    if tok.kind != "id" or not isinstance(tok.bind, gen.Decl) or tok.bind.kind not in ("type", "proc"): return None
    pm = pmap_ if pmap_ is not None else proc_of_tokens(P)
    p = pm.get(tok.uid)
    if p is None: return None
    for v in p.params + p.locals:
        if v.name == tok.text: return v
    return None
