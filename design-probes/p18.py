import subprocess, json, time, os, re
BIN = "/tmp/probe/target/release/lsp4spl"
def frame(o):
    b = json.dumps(o, ensure_ascii=False).encode(); return b"Content-Length: %d\r\n\r\n" % len(b) + b
sess = frame({"jsonrpc": "2.0", "id": 1, "method": "initialize", "params": {"capabilities": {"textDocument": {"publishDiagnostics": {}}}}}) + frame({"jsonrpc": "2.0", "method": "initialized", "params": {}}) + \
  frame({"jsonrpc":"2.0","method":"textDocument/didOpen","params":{"textDocument":{"uri":"file:///x.spl","languageId":"spl","version":0,"text":"// häßlich 😀\nproc main() { var i: int; i := 1; }\n"}}}) + \
  frame({"jsonrpc": "2.0", "id": 2, "method": "textDocument/hover", "params": {"textDocument": {"uri": "file:///x.spl"}, "position": {"line": 1, "character": 18}}}) + \
  frame({"jsonrpc": "2.0", "id": 3, "method": "shutdown"}) + frame({"jsonrpc": "2.0", "method": "exit"})
def run(segments, delay=0.002, strace=False):
    cmd = [BIN]
    if strace: cmd = ["strace", "-f", "-e", "trace=read", "-o", "/tmp/probe/st.log", BIN]
    p = subprocess.Popen(cmd, stdin=subprocess.PIPE, stdout=subprocess.PIPE, stderr=subprocess.PIPE)
    for s in segments:
        os.write(p.stdin.fileno(), s); time.sleep(delay)
    p.stdin.close()
    out = p.stdout.read(); rc = p.wait()
    return rc, out
ref = run([sess], 0)
t = time.time(); bad = 0
for k in range(1, len(sess)):
    r = run([sess[:k], sess[k:]], 0.001)
    if r != ref: bad += 1; print("DIFF at split", k, r[0])
print("splits", len(sess) - 1, "bad", bad, "time", round(time.time() - t, 1))
t = time.time()
r = run([sess[:100], sess[100:130], sess[130:]], 0.005, strace=True)
print("strace run ok", r == ref, round(time.time() - t, 2))
sizes = [int(m.group(1)) for m in re.finditer(r"read\(0, .*\) = (\d+)", open("/tmp/probe/st.log").read())]
print("read(0) sizes", sizes)
