"""C17 — folding ranges match procedure extents.
Oracle: procedure extents known by construction (line of `proc`, line of the last token) + the LSP position model;
well-formedness on hostile documents."""
import random
from ..core import Part, pmap, NCPU, server_bin
from ..client import ServerDied, Timeout, FrameError
from .. import gen, feat, layout, lspmodel, reflex
from . import c02gen


def wellformed(part, res, text, sc):
    if not isinstance(res, list): part.fail("foldingRange answers %r" % (res,), sc); return False
    n = len(lspmodel.line_spans(text)); prev_end = -1
    for r in res:
        s, e = r.get("startLine"), r.get("endLine")
        if not isinstance(s, int) or not isinstance(e, int) or s < 0 or e < s or e >= n:
            part.fail("folding range %r is not well-formed (document has %d lines)" % (r, n), sc); return False
        if s < prev_end:
            part.fail("folding ranges overlap or are out of order: %r after a range ending at line %d" % (r, prev_end), sc); return False
        prev_end = e
    return True


def layout_edits(part, sess, P, text, rng):
    """the same program after incremental layout-only changes: white space / comment lines inserted at line ends (columns beyond
    the line end are clamped), and replacements of the SAME LENGTH (a blank becomes a line break, a line break becomes a blank):
    the procedures keep their tokens - in the second case even their byte offsets - while their lines move. The ranges are asked
    for before the first change and after every change, so an answer remembered from an earlier state shows."""
    import re
    sig0 = reflex.significant(reflex.lex(text))
    sig = [t for t in P.toks if t.kind != "comment"]
    cur = text; states = []
    eol = "\r\n" if "\r\n" in text else "\n"
    for _ in range(rng.randint(1, 3)):
        spans = lspmodel.line_spans(cur)
        if rng.random() < .4:
            # same length: one blank <-> one LF, two blanks <-> CRLF
            T = layout.Text(cur)
            if rng.random() < .6:
                cands = [m.start() for m in re.finditer(" " * len(eol), cur)]
                if not cands: continue
                i = rng.choice(cands); new = eol
            else:
                cands = [m.start() for m in re.finditer(re.escape(eol), cur)]
                if not cands: continue
                i = rng.choice(cands); new = " " * len(eol)
            if eol == "\n" and (cur[i - 1:i] == "\r"): continue
            bi = len(cur[:i].encode())
            ch = {"range": T.rng(bi, bi + len(eol)), "text": new}
            kind = "same_length"
        else:
            ln = rng.randrange(len(spans)); a, e = spans[ln][0], spans[ln][1]
            col = len(cur[a:e].encode("utf-16-le")) // 2 + rng.choice([0, 0, 1, 7, 80, 100000])
            ch = {"range": {"start": {"line": ln, "character": col}, "end": {"line": ln, "character": col + rng.choice([0, 0, 3])}},
                  "text": rng.choice([" ", eol, eol + eol, "\t", " // c" + eol, eol + "  "])}
            kind = "insertion"
        nxt = lspmodel.apply_change(cur, ch)
        if reflex.significant(reflex.lex(nxt)) != sig0: continue      # (the place was inside a comment or literal: not a layout edit)
        lx = [x for x in reflex.lex(nxt) if x[0] not in ("comment", "eof")]
        if len(lx) != len(sig): continue
        cur = nxt
        at = {t.uid: x for t, x in zip(sig, lx)}
        T2 = layout.Text(cur)
        want = [(T2.pos(at[p.node.parts[0].uid][2])[0], T2.pos(at[p.rcurly.uid][3])[0]) for p in sorted(P.procs, key=lambda p: p.node.a)]
        states.append((ch, cur, want, kind))
    if not states: return
    sc = {"kind": "extents-after-edits", "text": text, "changes": [], "ask_before": True}
    try:
        uri = sess.open(text, "c17e_")
        sess.result("textDocument/foldingRange", {"textDocument": {"uri": uri}})
        for i, (ch, cur, want, kind) in enumerate(states):
            sc = dict(sc, changes=sc["changes"] + [ch], expected=want)
            sess.server().change(uri, [ch], i + 1)
            res = sess.result("textDocument/foldingRange", {"textDocument": {"uri": uri}}); part.ev()
            if not wellformed(part, res, cur, sc): break
            got = [(r["startLine"], r["endLine"]) for r in res]
            if got != want:
                part.fail("after %d layout-only incremental change(s) the folding ranges are %r, the procedure extents in the client's text are %r" % (i + 1, got, want), sc); break
            part.cnt("layout_edit_states_" + kind)
        else: part.cnt("documents_after_layout_edits")
        sess.close(uri)
    except (ServerDied, Timeout, FrameError) as e:
        feat.died(part, e, "foldingRange request after incremental changes", sc, sess)


def worker(args):
    seed, nprog, nhostile = args
    rng = random.Random("C17/%s" % seed)
    part = Part(); sess = feat.Session()
    for it in range(nprog):
        P, text, T = feat.program(rng, size=rng.choice([1, 2, 3, 5, 8]))
        sc = {"kind": "extents", "text": text}
        try:
            uri = sess.open(text, "c17_")
            res = sess.result("textDocument/foldingRange", {"textDocument": {"uri": uri}}); part.ev()
            sess.close(uri)
            if not wellformed(part, res, text, sc): continue
            want = [(T.pos(p.node.parts[0].start)[0], T.pos(p.rcurly.end)[0]) for p in sorted(P.procs, key=lambda p: p.node.a)]
            got = [(r["startLine"], r["endLine"]) for r in res]
            sc["expected"] = want
            if got != want: part.fail("folding ranges %r, procedure extents (line of `proc`, line of last token) are %r" % (got, want), sc)
            else:
                part.cnt("documents_with_expected_ranges")
                for p in P.procs: part.see((bool(p.doc_toks()), min(T.pos(p.rcurly.end)[0] - T.pos(p.node.parts[0].start)[0], 5)))
                if it == 0: part.sample({"part": "folding", "text": text[:200], "ranges": got}, 1)
        except (ServerDied, Timeout, FrameError) as e:
            feat.died(part, e, "foldingRange request", sc, sess)
        if it % 3 == 0: layout_edits(part, sess, P, text, rng)
    for it in range(nhostile):
        text = c02gen.hostile_text(rng)
        sc = {"kind": "wellformed", "text": text}
        try:
            uri = sess.open(text, "c17h_")
            res = sess.result("textDocument/foldingRange", {"textDocument": {"uri": uri}}); part.ev()
            sess.close(uri)
            if wellformed(part, res, text, sc): part.cnt("wellformed_hostile_documents")
        except (ServerDied, Timeout, FrameError) as e:
            feat.died(part, e, "foldingRange request on a hostile document", sc, sess)
    feat.report(part)
    sess.kill()
    return part


def run(ctx):
    server_bin("rel")
    nprog, nh = (450, 500) if ctx.quick else (4000, 6000)
    for p in pmap(worker, [("%s/%d" % (ctx.seed, i), nprog, nh) for i in range(NCPU)]): ctx.merge(p)
    ctx.rule = ("valid generated programs in all layouts (doc comments, several procedures on one line, CRLF): ranges = one per procedure in source order from the line of `proc` to the line of "
                "its last token; hostile documents: start <= end, inside the document, ordered and not overlapping; distinct_nontrivial = distinct (has doc comments, line span) of procedures")
    ctx.assumptions = ["extents from the generator; line numbering from the LSP model (\\n, \\r\\n)"]
    ctx.floor("evaluations", ctx.evaluations, 1500)
    ctx.floor("documents with expected ranges", ctx.extra.get("counters", {}).get("documents_with_expected_ranges", 0), 500)
    ctx.floor("documents checked again after layout-only incremental changes", ctx.extra.get("counters", {}).get("documents_after_layout_edits", 0), 100)


def replay(ctx, sc):
    part = Part(); sess = feat.Session()
    try:
        uri = sess.open(sc["text"], "c17r_")
        cur = sc["text"]
        for i, ch in enumerate(sc.get("changes", [])):
            if sc.get("ask_before"): sess.result("textDocument/foldingRange", {"textDocument": {"uri": uri}})
            sess.server().change(uri, [ch], i + 1); cur = lspmodel.apply_change(cur, ch)
        sc = dict(sc, text=cur)
        res = sess.result("textDocument/foldingRange", {"textDocument": {"uri": uri}}); part.ev()
        if wellformed(part, res, sc["text"], sc) and "expected" in sc:
            got = [[r["startLine"], r["endLine"]] for r in res]
            if got != [list(x) for x in sc["expected"]]: part.fail("folding ranges %r, expected %r" % (got, sc["expected"]), sc)
    except (ServerDied, Timeout, FrameError) as e:
        feat.died(part, e, "replay", sc, sess)
    sess.kill(); ctx.merge(part); ctx.see(1); ctx.see(2)
