import re
# tiny reference lexer (python) for SPL
TOKRE = re.compile(r"(?P<comment>//[^\n]*(?:\n|$))|(?P<hex>0x[0-9a-fA-F]*)|(?P<int>[0-9]+)|(?P<char>'(?:\\n|[^\n])')|(?P<id>[A-Za-z_][A-Za-z0-9_]*)|(?P<sym>:=|<=|>=|[()\[\]{}=#<>:,;+\-*/])|(?P<ws>\s+)|(?P<unk>.)", re.S)
def lex(text):
    out = []
    for m in TOKRE.finditer(text):
        k = m.lastgroup; v = m.group()
        if k == "ws": continue
        if k == "hex": out.append(("int", int(v[2:], 16) if len(v) > 2 else None))
        elif k == "int": out.append(("int", int(v)))
        elif k == "char": out.append(("int", 10 if v == "'\\n'" else ord(v[1])))
        elif k == "comment": out.append(("comment", v[2:].strip()))
        else: out.append((k, v))
    return out
def apply_edits(text, edits):
    # edits: list of TextEdit with utf16 positions; apply back to front
    lines = text.split("\n")
    def off(p):
        l, c = p["line"], p["character"]
        if l >= len(lines): return len(text.encode("utf-16-le")) // 2
        return sum(len(x.encode("utf-16-le")) // 2 + 1 for x in lines[:l]) + min(c, len(lines[l].encode("utf-16-le")) // 2)
    u = text.encode("utf-16-le")
    for e in sorted(edits, key=lambda e: off(e["range"]["start"]), reverse=True):
        a, b = off(e["range"]["start"]), off(e["range"]["end"])
        u = u[:2*a] + e["newText"].encode("utf-16-le") + u[2*b:]
    return u.decode("utf-16-le")
