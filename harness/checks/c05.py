"""C05 — a syntax error stays contained in the declaration it occurs in.
Oracle: before/after comparison with the undamaged run of the same build (sub-trees of the other declarations relative to
their own first token; their table entries; hover on their names) + extent ground truth for syntax diagnostics."""
import random
from ..core import Adaptor, Part, pmap, NCPU, server_bin, adaptor_bin
from ..client import Server, ServerDied, Timeout, FrameError, tdp
from .. import gen, layout
from ..gen import Tok

# SPL token alphabet without the declaration keywords `proc` / `type` (the property excludes them)
ALPHABET = [("kw", w) for w in ("if", "else", "while", "array", "of", "ref", "var")] + \
           [("sym", w) for w in ("(", ")", "[", "]", "{", "}", "=", "#", "<", "<=", ">", ">=", ":=", ":", ",", ";", "+", "-", "*", "/")] + \
           [("id", "zz9"), ("id", "int"), ("int", "7"), ("int", "0x1F"), ("int", "'c'")]


def split_decls(tree):
    """pre-order dump -> list of (top-level node index range) per global declaration"""
    tops = [i for i, n in enumerate(tree) if n[5] == 0]
    out = []
    for k, i in enumerate(tops):
        j = tops[k + 1] if k + 1 < len(tops) else len(tree)
        out.append(tree[i:j])
    return out


def rel(sub):
    """sub-tree with ranges relative to its own first token, without diagnostics (semantic ones may legitimately change)"""
    base = sub[0][1]
    return [(n[0], n[1] - base, n[2] - base, repr(n[3])) for n in sub]


def table_facts(res, sub):
    """entry facts for the declaration whose sub-tree is `sub`: (kind, entry range relative to the declaration)"""
    a, b = sub[0][1], sub[0][2]
    for name, kind, rs, re_, dbg, declared in res["table"]:
        if declared and rs == a and re_ == b: return (name, kind)
    return None


def worker(args):
    seed, nprog, ndamage, lsp_every = args
    rng = random.Random("C05/%s" % seed)
    ad = Adaptor(); part = Part(); srv = None; ndoc = 0
    for it in range(nprog):
        gs = rng.getrandbits(32)
        P = gen.generate(gs, size=rng.choice([2, 3, 4, 6]), depth=rng.choice([1, 2, 3]), edepth=2)
        if len(P.root.parts) < 2: continue
        lr = random.Random(gs)
        eol = lr.choice(["\n", "\n", "\r\n"])
        text0 = layout.layout(P, lr, lr.choice(["random", "spaced", "random"]), eol)
        base = ad.call(op="analyze", text=text0, tree=True, table=True)
        if "tree" not in base:
            part.fail("analysis of the undamaged program failed: %r" % (base,), {"kind": "damage", "text0": text0, "text": text0, "decl": 0}); continue
        decls0 = split_decls(base["tree"])
        nodes = P.root.parts
        if len(decls0) != len(nodes) or base["errors"]:
            part.fail("undamaged program: %d declarations parsed, %d written; diagnostics %r" % (len(decls0), len(nodes), base["errors"][:2]), {"kind": "damage", "text0": text0, "text": text0, "decl": 0}); continue
        toks = P.toks
        for _ in range(ndamage):
            k = rng.randrange(len(nodes)); D = nodes[k]
            cand = [t for t in toks[D.a:D.b] if t.kind != "comment" and t.text not in ("proc", "type")]
            if not cand: continue
            tok = rng.choice(cand)
            op = rng.choice(["delete", "insert", "replace"])
            i = tok.idx
            if op == "delete": new = toks[:i] + toks[i + 1:]
            else:
                kind, w = rng.choice(ALPHABET)
                nt = Tok(kind, w); nt.pre = rng.choice([" ", " ", "\n", ""])
                if op == "replace" and w == tok.text: continue
                new = toks[:i] + [nt] + (toks[i:] if op == "insert" else toks[i + 1:])
            # white space so that the neighbours of the damage do not merge into other lexemes
            saved = [(t, t.pre) for t in new]
            prev = None
            for t in new:
                if prev is not None and prev.kind != "comment" and (t.pre or "") == "" and (layout.needs_sep(prev, t) or (prev.text + t.text in (":=", "<=", ">=", "//"))): t.pre = " "
                prev = t
            text = layout.render(new, eol, final="")
            for t, pre in saved: t.pre = pre
            first_of = lambda n: (gen.first_tok(n).lead[0] if gen.first_tok(n).lead else gen.first_tok(n))
            lo = first_of(D).start
            hi = first_of(nodes[k + 1]).start if k + 1 < len(nodes) else len(text.encode())
            desc = "%s %r %s in declaration %d of %d" % (op, tok.text, ("-> %r" % nt.text) if op != "delete" else "", k, len(nodes))
            sc = {"kind": "damage", "text0": text0, "text": text, "decl": k, "ndecls": len(nodes), "extent": [lo, hi], "what": desc}
            judge(part, ad, base, decls0, sc)
            part.see((op, tok.text if tok.kind in ("kw", "sym") else tok.kind, D.kind))
            if lsp_every and part["evaluations"] % lsp_every == 0:
                try:
                    if srv is None or not srv.alive(): srv = Server(server_bin("rel"))
                    ndoc += 1; uri = "file:///c05/d%d.spl" % ndoc
                    srv.open(uri, text)
                    T = layout.Text(text)
                    for j, n in enumerate(nodes):
                        if j == k: continue
                        nt_ = n.decl.name_tok
                        r = srv.request("textDocument/hover", tdp(uri, *T.pos(nt_.start))).get("result")
                        part.cnt("hover_probes")
                        if not r or r.get("range") != T.rng(nt_.start, nt_.end):
                            part.fail("%s: hover on the name of undamaged declaration %d (%s) answers %r" % (desc, j, nt_.text, r), dict(sc, lsp=True)); break
                    srv.close_doc(uri)
                except (ServerDied, Timeout, FrameError) as e:
                    part.fail("%s: server failed: %s" % (desc, e), dict(sc, lsp=True)); srv = None
            layout.render(toks, eol)
        if it == 0: part.sample({"part": "damage", "example": sc["what"], "text": text[max(0, lo - 20):lo + 160]}, 1)
    ad.close()
    if srv: srv.kill()
    return part


def judge(part, ad, base, decls0, sc):
    k = sc["decl"]; n = len(decls0)
    res = ad.call(op="analyze", text=sc["text"], tree=True, table=True)
    part.ev()
    if "tree" not in res:
        part.fail("%s: analysis failed: %r" % (sc.get("what"), res), sc); return
    decls = split_decls(res["tree"])
    what = sc.get("what")
    if "errors" not in res:
        part.fail("%s: the diagnostics of the damaged program cannot be computed (errors() panicked: %r)" % (what, res.get("errors_panic")), sc); return
    # declarations before the damaged one: same position in the list; after it: counted from the end
    for j in range(n):
        if j == k: continue
        idx = j if j < k else len(decls) - (n - j)
        if idx < 0 or idx >= len(decls) or (j < k and idx >= len(decls) - (n - 1 - k)) :
            part.fail("%s: declaration %d has no counterpart any more (%d top-level nodes)" % (what, j, len(decls)), sc); return
        if rel(decls[idx]) != rel(decls0[j]):
            a, b = rel(decls[idx]), rel(decls0[j])
            d = next((x for x in zip(a, b) if x[0] != x[1]), (len(a), len(b)))
            part.fail("%s: undamaged declaration %d is parsed differently: %r" % (what, j, d), sc); return
        f0, f1 = table_facts(base, decls0[j]), table_facts(res, decls[idx])
        if f0 is not None and f1 != f0:
            part.fail("%s: undamaged declaration %d lost or changed its table entry: %r -> %r" % (what, j, f0, f1), sc); return
    lo, hi = sc["extent"]
    for e in res["errors"]:
        if e[3] in ("parse", "lex") and not (lo <= e[0] and e[1] <= hi):
            part.fail("%s: syntax diagnostic %r at %d..%d outside the damaged declaration %d..%d" % (what, e[2], e[0], e[1], lo, hi), sc); return
    part.cnt("damages_with_syntax_errors" if any(e[3] == "parse" for e in res["errors"]) else "damages_without_syntax_error")


def run(ctx):
    server_bin("rel"); adaptor_bin()
    nprog, nd = (60, 40) if ctx.quick else (1500, 120)
    for p in pmap(worker, [("%s/%d" % (ctx.seed, i), nprog, nd, 10) for i in range(NCPU)]): ctx.merge(p)
    ctx.rule = ("valid generated programs with 2-8 global declarations; one token of one declaration (not a declaration keyword) deleted, or a token of the SPL alphabet "
                "(without proc/type) inserted before it or put in its place; distinct_nontrivial = distinct (operation, token, declaration kind) triples")
    ctx.assumptions = ["replacement identifiers are fresh names, so the damage cannot redeclare another declaration (that would be a semantic, not a syntactic, interaction)",
                       "semantic diagnostics in other declarations are not constrained (a damaged signature legitimately breaks its callers)"]
    ctx.floor("evaluations", ctx.evaluations, 5000)
    ctx.floor("damages that produced syntax errors", ctx.extra.get("counters", {}).get("damages_with_syntax_errors", 0), 2000)


def replay(ctx, sc):
    ad = Adaptor(); part = Part()
    base = ad.call(op="analyze", text=sc["text0"], tree=True, table=True)
    judge(part, ad, base, split_decls(base["tree"]), sc)
    ctx.merge(part); ctx.see(1); ctx.see(2)
