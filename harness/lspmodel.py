"""Reference model of LSP text synchronisation (LSP 3.17, "Text Documents" / "Position"):
 * a line ends at \\n, \\r\\n or \\r;
 * `character` counts UTF-16 code units; a character past the end of the line means the end of that line;
 * a line past the end of the document means the end of the document;
 * a content change without `range` replaces the whole text;
 * the changes of one notification are applied in order, each to the result of its predecessor.
Works on Python strings (code points)."""
import re

_EOL = re.compile(r"\r\n|\r|\n")


def line_spans(text):
    """[(start, end_without_eol, next_start)] in code point indexes"""
    out = []; i = 0
    for m in _EOL.finditer(text):
        out.append((i, m.start(), m.end())); i = m.end()
    out.append((i, len(text), len(text)))
    return out


def offset(text, line, ch, spans=None):
    spans = spans or line_spans(text)
    if line >= len(spans): return len(text)
    a, e, _ = spans[line]
    u = 0; j = a
    while j < e and u < ch:
        u += 2 if ord(text[j]) > 0xFFFF else 1; j += 1
    return j


def position(text, idx, spans=None):
    spans = spans or line_spans(text)
    line = 0
    for k, (a, e, nx) in enumerate(spans):
        if idx < nx or k == len(spans) - 1:
            line = k; break
    a, e, _ = spans[line]
    seg = text[a:min(idx, e)]
    return line, sum(2 if ord(c) > 0xFFFF else 1 for c in seg)


def apply_change(text, change):
    rng = change.get("range")
    if rng is None: return change["text"]
    spans = line_spans(text)
    a = offset(text, rng["start"]["line"], rng["start"]["character"], spans)
    b = offset(text, rng["end"]["line"], rng["end"]["character"], spans)
    if b < a: raise ValueError("inverted range under the model")
    return text[:a] + change["text"] + text[b:]


def apply_changes(text, changes):
    for c in changes: text = apply_change(text, c)
    return text


def apply_edits(text, edits):
    """apply a list of non-overlapping TextEdits (all relative to `text`)"""
    spans = line_spans(text)
    conv = []
    for e in edits:
        a = offset(text, e["range"]["start"]["line"], e["range"]["start"]["character"], spans)
        b = offset(text, e["range"]["end"]["line"], e["range"]["end"]["character"], spans)
        conv.append((a, b, e["newText"]))
    conv.sort(key=lambda x: (x[0], x[1]))
    for i in range(1, len(conv)):
        if conv[i][0] < conv[i - 1][1]: raise ValueError("overlapping edits")
    for a, b, t in reversed(conv):
        text = text[:a] + t + text[b:]
    return text


def whole_document_range(text):
    spans = line_spans(text)
    line, col = position(text, len(text), spans)
    return {"start": {"line": 0, "character": 0}, "end": {"line": line, "character": col}}


def pos_le(p, q):
    return (p["line"], p["character"]) <= (q["line"], q["character"])


def range_inside_document(rng, text, spans=None):
    """start <= end and both positions denote places in the document (line exists, column within the line)"""
    spans = spans or line_spans(text)
    for p in (rng["start"], rng["end"]):
        if p["line"] < 0 or p["character"] < 0 or p["line"] >= len(spans): return False
        a, e, _ = spans[p["line"]]
        width = sum(2 if ord(c) > 0xFFFF else 1 for c in text[a:e])
        if p["character"] > width: return False
    return pos_le(rng["start"], rng["end"])
