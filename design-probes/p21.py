import os, sys, random
os.environ["LSP_BIN"] = sys.argv[1]
from lsp import *
from lspmodel import *
N = int(sys.argv[2])
ALPH = ["a", "b", " ", "é", "€", "😀", "\n", "\r\n", "\r", "x := 1;", "\n\n", "// c", "proc main() {}", "'", "0x"]
S = Server(binpath=sys.argv[1])
bad = 0; steps = 0; first = None
for seed in range(N):
    rng = random.Random(seed)
    text = "".join(rng.choice(ALPH) for _ in range(rng.randint(0, 25)))
    uri = "file:///d%d.spl" % seed
    S.open(uri, text)
    for step in range(rng.randint(1, 12)):
        changes = []
        cur = text
        for _ in range(rng.randint(1, 3)):
            if rng.random() < .1:
                ch = {"text": "".join(rng.choice(ALPH) for _ in range(rng.randint(0, 10)))}
            else:
                ls = lines_of(cur)
                l1 = rng.randrange(len(ls) + 1)
                c1 = rng.randrange(len(ls[l1][0]) + 3) if l1 < len(ls) else rng.randrange(3)
                if rng.random() < .5: l2, c2 = l1, c1 + rng.randrange(4)
                else:
                    l2 = min(l1 + rng.randrange(3), len(ls)); c2 = rng.randrange(6)
                    if (l2, c2) < (l1, c1): l2, c2 = l1, c1
                ch = {"range": {"start": {"line": l1, "character": c1}, "end": {"line": l2, "character": c2}}, "text": "".join(rng.choice(ALPH) for _ in range(rng.randint(0, 4)))}
                # make sure model's start<=end (overshoot clamping may reorder): skip if inverted in model
                if offset(cur, l1, c1) > offset(cur, l2, c2): continue
            changes.append(ch); cur = apply(cur, ch)
        if not changes: continue
        try:
            S.change(uri, changes)
            got = S.request("$/verif/text", {"uri": uri}).get("result")
        except (EOFError, TimeoutError) as e:
            print("CRASH", seed, repr(text), changes, str(e)[-300:]); S = Server(binpath=sys.argv[1]); break
        steps += 1
        text = cur
        if got != text:
            bad += 1
            if first is None: first = (seed, repr(got), repr(text), changes)
            break
print("steps", steps, "divergent histories", bad, first)
