"""Shared helpers of the formatting checks (C09, C10, C11)."""
from . import lspmodel, reflex, gen


def options(rng):
    return {"tabSize": rng.randint(0, 8), "insertSpaces": rng.random() < .7}


def unit(opts):
    return " " * opts["tabSize"] if opts["insertSpaces"] else "\t"


def format_request(sess, uri, opts):
    return sess.result("textDocument/formatting", {"textDocument": {"uri": uri}, "options": opts})


def apply_format(text, res):
    """(formatted text, None) or (None, problem). res: result of textDocument/formatting (None = no change)"""
    if res is None: return text, None
    if isinstance(res, dict) and "__error__" in res: return None, "error response %r" % (res,)
    if not isinstance(res, list) or len(res) != 1: return None, "expected exactly one edit, got %r" % (str(res)[:200],)
    e = res[0]
    if e.get("range") != lspmodel.whole_document_range(text):
        return None, "the edit range %r is not the whole document %r" % (e.get("range"), lspmodel.whole_document_range(text))
    return e["newText"], None


def set_depths(P):
    """nesting depth of every token, as the formatter must indent it when it starts a line"""
    def stmt(n, d):
        k = n.kind
        if k == "Block":
            for t in gen.walk_toks(n.parts[0]): t.depth = d
            for c in n.stmts: stmt(c, d + 1)
            for t in gen.walk_toks(n.parts[-1]): t.depth = d
        elif k == "If":
            for p in n.parts[:4]:
                for t in gen.walk_toks(p): t.depth = d
            branch(n.then, d)
            if n.els is not None:
                for t in gen.walk_toks(n.parts[5]): t.depth = d
                if n.els.kind == "If": stmt(n.els, d)
                else: branch(n.els, d)
        elif k == "While":
            for p in n.parts[:4]:
                for t in gen.walk_toks(p): t.depth = d
            branch(n.body, d)
        else:
            for t in gen.walk_toks(n): t.depth = d
    def branch(n, d):
        if n.kind == "Block": stmt(n, d)
        else: stmt(n, d + 1)
    for dn in P.root.parts:
        if dn.kind == "TypeDecl":
            for t in gen.walk_toks(dn): t.depth = 0
        else:
            for t in gen.walk_toks(dn): t.depth = 0
            for p in dn.params:
                for t in gen.walk_toks(p): t.depth = 1
            for v in dn.vars:
                for t in gen.walk_toks(v): t.depth = 1
            for s in dn.stmts: stmt(s, 1)
    for t in P.trail: t.depth = 0


class _T:
    pass
