#!/usr/bin/python3
"""Seeded-change workflow (build-time tool, not used by any check).
  tools/seed.py confirm <worktree> <A|B> -- <demo command run inside the worktree>
      applies SEED/<X>/patch.diff in the scratch worktree, builds, runs the repository's test suite (must pass: 142),
      runs the demonstration (must fail), reverts, rebuilds, runs the demonstration again (must pass)
  tools/seed.py try <patch.diff> <Cxx> [<Cxx> ...] [--tier thorough] [--seed N]
      applies the patch to /repo, runs the named checks, reverts /repo (always), prints which checks fired
"""
import subprocess, sys, os, re, time

def sh(cmd, cwd=None, env=None, timeout=3600):
    e = dict(os.environ); e.update(env or {})
    p = subprocess.run(cmd, shell=True, cwd=cwd, env=e, capture_output=True, text=True, timeout=timeout)
    return p.returncode, p.stdout + p.stderr

def confirm(wt, x, demo):
    env = {"CARGO_TARGET_DIR": wt + "/target", "CARGO_NET_OFFLINE": "true"}
    rc, out = sh("git status --short | grep -v '^??'", wt)
    if out.strip(): print("worktree not clean:", out); return False
    ok = True
    rc, out = sh("git apply SEED/%s/patch.diff" % x, wt); assert rc == 0, out
    try:
        rc, out = sh("cargo build --offline --release -p lsp4spl 2>&1 | tail -3", wt, env); print("build with change:", "ok" if "Finished" in out else out[-300:])
        rc, out = sh("cargo test --workspace --no-fail-fast --offline 2>&1 | grep -E '^test result'", wt, env)
        passed = sum(int(m) for m in re.findall(r"(\d+) passed", out)); failed = sum(int(m) for m in re.findall(r"(\d+) failed", out))
        print("test suite with change: %d passed, %d failed" % (passed, failed)); ok &= (passed == 142 and failed == 0)
        rc, out = sh(demo, wt, env); print("demo with change: exit", rc, "|", out.strip().split("\n")[-1][:200]); ok &= rc != 0
    finally:
        sh("git checkout -- .", wt)
    rc, out = sh("cargo build --offline --release -p lsp4spl 2>&1 | tail -1", wt, env)
    rc, out = sh(demo, wt, env); print("demo without change: exit", rc, "|", out.strip().split("\n")[-1][:200]); ok &= rc == 0
    print("CONFIRMED" if ok else "NOT CONFIRMED")
    return ok

def try_(patch, checks, tier, seed):
    rc, out = sh("git status --short | grep -v '^??'", "/repo")
    if out.strip(): print("/repo not clean:", out); return
    rc, out = sh("git apply " + os.path.abspath(patch), "/repo"); assert rc == 0, out
    res = {}
    try:
        for c in checks:
            t = time.time()
            rc, out = sh("./vcheck %s --tier %s" % (c, tier), "/verif", {"VERIF_SEED": str(seed)})
            first = next((l for l in out.split("\n") if l.startswith("  ")), "")
            res[c] = rc
            print("%s: exit %d  %s  (%.0fs)" % (c, rc, {0: "silent", 1: "FIRED", 2: "INCONCLUSIVE"}.get(rc, "?"), time.time() - t))
            if rc == 1: print("    " + first.strip()[:300])
            if rc == 2: print("    " + out.strip().split("\n")[-1][:400])
    finally:
        sh("git checkout -- .", "/repo")
        rc, out = sh("git status --short | grep -v '^??'", "/repo"); print("/repo restored:", "clean" if not out.strip() else out)
    return res

def keep(wt, x, sid, prop, needs, caught_by, notes=""):
    import json, shutil, glob
    dst = "/verif/seeded/" + sid
    os.makedirs(dst, exist_ok=True)
    for f in glob.glob("%s/SEED/%s/*" % (wt, x)): shutil.copy(f, dst)
    for f in glob.glob("%s/SEED/*.py" % wt) + glob.glob("%s/SEED/*.rs" % wt): shutil.copy(f, dst)   # shared helpers of the demonstrations
    meta = {"id": sid, "breaks_property": prop, "source": "independent sub-agent (given only the property text and a scratch worktree)", "needs_to_manifest": needs,
            "confirmed": "applied in a scratch worktree: builds, repository suite 142/142 passes, demonstration fails with the change and passes without (tools/seed.py confirm)",
            "caught_by": caught_by, "notes": notes, "base_commit": subprocess.run("git -C /repo rev-parse --short HEAD", shell=True, capture_output=True, text=True).stdout.strip()}
    json.dump(meta, open(dst + "/meta.json", "w"), indent=1)
    print("kept", dst)

if __name__ == "__main__":
    a = sys.argv[1:]
    if a[0] == "keep":
        keep(*a[1:8]); sys.exit(0)
    if a[0] == "confirm":
        i = a.index("--"); confirm(a[1], a[2], " ".join(a[i + 1:]))
    else:
        tier = "quick"; seed = 1
        if "--tier" in a: tier = a[a.index("--tier") + 1]; del a[a.index("--tier"):a.index("--tier") + 2]
        if "--seed" in a: seed = a[a.index("--seed") + 1]; del a[a.index("--seed"):a.index("--seed") + 2]
        try_(a[1], a[2:], tier, seed)
