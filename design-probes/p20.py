from astcmp import *
seed = 289
rng = random.Random(seed)
g = Gen(rng, depth=3).program()
toks = list(g.toks)
for _ in range(rng.randint(0, 8)):
    k = rng.randrange(len(toks) + 1); toks.insert(k, Tok("comment", "// gap %d" % rng.randint(0, 99)))
text = layout(toks, random.Random(seed))
i = text.index("gap 90")
print(repr(text[i-60:i+60]))
