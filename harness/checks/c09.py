"""C09 — formatting never changes the program.
Oracle: independent edit applier (LSP model) + reference lexer on both texts (non-comment token sequence with literal
values) + diagnostics of both texts opened fresh, compared as multisets of (message, index of the culprit token)."""
import random, bisect
from ..core import Part, pmap, NCPU, server_bin
from ..client import ServerDied, Timeout, FrameError
from .. import gen, feat, layout, reflex, fmt, lspmodel

LITERALS = ["007", "0x0a", "0x0A", "0xff", "'''", "'\\n'", "'\\'", "4294967295", "4294967296", "0xFFFFFFFF", "0x100000000", "0", "00", "' '", "'/'",
            "'\t'", "'\r'", "'\x0c'", "'\x00'", "'\x7f'", "'\"'"]      # raw control characters between the quotes: any single character is a char literal


def sig_tokens(text):
    lx = reflex.lex(text)
    return [(k, v) for k, v, a, b in lx if k not in ("comment", "eof")], lx


def diag_keys(diags, text, lx):
    """multiset of (message, index of the non-comment token at which the range starts)"""
    T = layout.Text(text)
    starts = [a for k, v, a, b in lx if k not in ("comment", "eof")]
    out = []
    for d in diags or []:
        off = T.offset(d["range"]["start"]["line"], d["range"]["start"]["character"])
        end = T.offset(d["range"]["end"]["line"], d["range"]["end"]["character"])
        # culprit = first non-comment token at or after the start of the range (a range may start at comments in front of its construct);
        # an empty range sits at the end of the token before it
        i = bisect.bisect_right(starts, max(off - 1, 0)) - 1 if off == end else bisect.bisect_left(starts, off)
        out.append((d["message"].strip(), i, "empty" if off == end else "span"))
    return sorted(out)


def spice_literals(P, rng):
    for t in P.toks:
        if t.kind == "int" and rng.random() < .25: t.text = rng.choice(LITERALS)


def check_one(part, sess, text, opts, sc, P=None):
    uri = sess.open(text, "c09_")
    d0 = sess.server().diags(uri)
    res = fmt.format_request(sess, uri, opts); part.ev()
    sess.close(uri)
    new, problem = fmt.apply_format(text, res)
    if problem: part.fail("formatting: " + problem, sc); return None
    if res is not None and new == text: part.fail("formatting returned an edit that changes nothing (must be null)", sc); return None
    s0, lx0 = sig_tokens(text); s1, lx1 = sig_tokens(new)
    if s0 != s1:
        i = next((i for i, (x, y) in enumerate(zip(s0, s1)) if x != y), min(len(s0), len(s1)))
        part.fail("formatting changed the program: token %d was %r and is now %r (%d tokens before, %d after)" % (i, s0[i] if i < len(s0) else None, s1[i] if i < len(s1) else None, len(s0), len(s1)), sc); return None
    uri2 = sess.open(new, "c09f_")
    d1 = sess.server().diags(uri2); part.ev()
    sess.close(uri2)
    k0, k1 = diag_keys(d0, text, lx0), diag_keys(d1, new, lx1)
    if k0 != k1:
        part.fail("diagnostics differ after formatting: before %r, after %r" % ([x for x in k0 if x not in k1][:3], [x for x in k1 if x not in k0][:3]), sc); return None
    return new


def worker(args):
    seed, nprog = args
    rng = random.Random("C09/%s" % seed)
    part = Part(); sess = feat.Session()
    for it in range(nprog):
        typed = rng.random() < .6
        P, text, T = feat.program(rng, typed=typed, depth=rng.choice([1, 2, 3, 4]))
        spice_literals(P, rng)
        eol = "\r\n" if "\r\n" in text else "\n"
        text = layout.render(P.toks, eol)
        opts = fmt.options(rng)
        sc = {"kind": "format", "text": text, "options": opts}
        try:
            new = check_one(part, sess, text, opts, sc)
            if new is not None:
                part.see(hash(tuple(sig_tokens(text)[0]))); part.cnt("changed" if new != text else "already_canonical"); part.add("options", "%s/%d" % ("spaces" if opts["insertSpaces"] else "tabs", opts["tabSize"]))
                part.cnt("ill_typed_programs" if not typed else "well_typed_programs")
                if it == 0: part.sample({"part": "format round trip", "options": opts, "before": text[:160], "after": new[:160]}, 1)
        except (ServerDied, Timeout, FrameError) as e:
            feat.died(part, e, "formatting request", sc, sess)
    feat.report(part)
    sess.kill()
    return part


def run(ctx):
    server_bin("rel")
    nprog = 350 if ctx.quick else 3000
    for p in pmap(worker, [("%s/%d" % (ctx.seed, i), nprog) for i in range(NCPU)]): ctx.merge(p)
    ctx.rule = ("syntactically valid generated programs (well-typed and ill-typed), all layouts incl. CRLF, comments in leading positions, literal corner cases (007, 0x0a, ''', '\\n', 2^32-1, "
                "overflowing literals), insertSpaces x tabSize 0..8: one whole-document edit; non-comment token sequence (kind, literal value) unchanged; same diagnostics (message, culprit token) "
                "after re-opening; distinct_nontrivial = distinct non-comment token sequences")
    ctx.assumptions = ["reference lexer and LSP edit model of the harness", "comments are placed only in positions where the formatter keeps them (comment preservation is C10's subject)"]
    ctx.floor("evaluations", ctx.evaluations, 1000)
    ctx.floor("documents that formatting changed", ctx.extra.get("counters", {}).get("changed", 0), 300)


def replay(ctx, sc):
    part = Part(); sess = feat.Session()
    try: check_one(part, sess, sc["text"], sc["options"], sc)
    except (ServerDied, Timeout, FrameError) as e: feat.died(part, e, "replay", sc, sess)
    sess.kill(); ctx.merge(part); ctx.see(1); ctx.see(2)
