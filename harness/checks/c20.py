"""C20 — ordering, read-your-writes and document isolation under load.
Oracle: a sequential model (URI -> text) applied in *send order*: the server has one FIFO reader, so the only legal linearisation
is the order in which the client wrote the messages.  Every write carries a unique marker (`printi(k);`), every read
(`$/verif/text`, foldingRange, hover) is checked against the model state at the moment it was queued.  Schedules: bursts written
without reading until the pipes block, reader stalls, delay failpoints in broker and responder (hook H3), with and without the
publishDiagnostics capability, URIs that differ only in scheme."""
import errno, json, os, random, select, subprocess, time
from ..core import Part, pmap, NCPU, server_bin
from ..client import FrameParser, FrameError, frame
from .. import lspmodel

BASE = "type T = array [4] of int;\n\nproc helper(ref a: T, n: int) {\n    a[0] := n;\n}\n\nproc main() {\n    var t: T;\n    helper(t, 1);\n}\n"
URIS = ["file:///c20/a.spl", "file:///c20/b.spl", "untitled:///c20/a.spl", "file:///c20/dir/a.spl", "file:///c20/c%20d.spl", "inmemory:///c20/b.spl"]


class Driver:
    def __init__(s, binpath, env, caps):
        e = dict(os.environ); e.update(env); e.setdefault("TSAN_OPTIONS", "halt_on_error=0 exitcode=66 second_deadlock_stack=1")
        s.p = subprocess.Popen([binpath], stdin=subprocess.PIPE, stdout=subprocess.PIPE, stderr=subprocess.PIPE, env=e, bufsize=0)
        s.fin, s.fout = s.p.stdin.fileno(), s.p.stdout.fileno()
        os.set_blocking(s.fin, False)
        s.out = bytearray(); s.parser = FrameParser(); s.msgs = []; s.sent = 0; s.queued = 0; s.total = 0; s.written = 0; s.req_ends = []
        s.max_inflight = 0; s.blocked_writes = 0; s.inflight_hist = set()
        s.write({"jsonrpc": "2.0", "id": 0, "method": "initialize", "params": {"capabilities": caps}})
        s.write({"jsonrpc": "2.0", "method": "initialized", "params": {}})
        s.nreq = 0; s.nresp = 0

    def write(s, obj):
        b = frame(obj); s.out += b; s.queued += 1; s.total += len(b)
        if "id" in obj: s.req_ends.append(s.total)      # stream offset at which this request is completely written

    def inflight(s):
        """requests completely written to the server minus responses received"""
        import bisect
        return bisect.bisect_right(s.req_ends, s.written) - sum(1 for m in s.msgs if "id" in m and "method" not in m)

    def pump(s, allow_read, timeout=0.0):
        """one select round; returns False when the server closed its output"""
        rl = [s.fout] if allow_read else []
        wl = [s.fin] if s.out else []
        if not rl and not wl: return True
        r, w, _ = select.select(rl, wl, [], timeout)
        if w:
            try:
                n = os.write(s.fin, bytes(s.out[:65536])); del s.out[:n]; s.written += n
            except BlockingIOError:
                s.blocked_writes += 1
            except BrokenPipeError:
                return False
        elif wl and not r:
            s.blocked_writes += 1
        if r:
            d = os.read(s.fout, 1 << 16)
            if not d: return False
            s.parser.feed(d)
            while True:
                m = s.parser.next()
                if m is None: break
                s.msgs.append(m)
        return True

    def kill(s):
        try: s.p.kill(); s.p.wait()
        except Exception: pass
        for f in (s.p.stdin, s.p.stdout, s.p.stderr):
            try: f.close()
            except Exception: pass


def marker_line(k, bad): return "    %s(%d);\n" % ("undefinedproc" if bad else "printi", k)


def scenario(rng, nops, ndocs):
    """list of client operations with the model's expectation attached"""
    docs = {}; ops = []; k = 0; rid = 0; uris = rng.sample(URIS, ndocs); ver = {}
    if "file:///c20/a.spl" in uris and "untitled:///c20/a.spl" not in uris and rng.random() < .7: uris[-1] = "untitled:///c20/a.spl"
    npub = {}
    big = rng.random() < .3
    filler = "".join("proc filler%d(a: int, ref b: int) {\n    var c: int;\n    c := a * %d + b;\n    if (c < a) {\n        b := c;\n    } else {\n        b := a;\n    }\n}\n\n" % (j, j) for j in range(rng.choice([100, 250]))) if big else ""
    storm = 0; storm_uri = None
    for i in range(nops):
        u = rng.choice(uris); c = rng.random()
        if storm == 0 and rng.random() < .01:
            storm = rng.choice([40, 80, 150]); storm_uri = u      # a run of consecutive changes to one document, longer than the channel capacities
        if storm > 0:
            storm -= 1; u = storm_uri; c = .1 if docs.get(u) is not None else .2
            if storm == 0: c = .99 if docs.get(u) is None else .9  # ... followed by a read of that document
        cur = docs.get(u)
        if cur is None:
            if c < .7:
                k += 1; text = BASE.replace("helper(t, 1);\n", "helper(t, 1);\n" + marker_line(k, False)) if rng.random() < .8 else "// doc %d\n" % k + BASE
                if big and rng.random() < .5: text = filler + text
                others = [docs[x] for x in uris if x != u and docs.get(x) is not None]
                if others and rng.random() < .2: text = rng.choice(others)        # a byte-identical twin of another open document
                docs[u] = text; ops.append({"op": "open", "uri": u, "text": text, "k": k}); npub[u] = npub.get(u, 0) + 1; ver[u] = 0    # versions start again with every open
                continue
            c = .99   # otherwise read the closed document
        if c < .45:
            k += 1
            # insert a uniquely numbered statement at the start of a line inside main
            # (after the variable declarations of main, so that the document stays a valid program)
            lines = cur.split("\n"); body = [j for j, l in enumerate(lines) if l.startswith("    ") and j > cur[:cur.index("    var t: T;")].count("\n")]
            j = rng.choice(body) if body else len(lines) - 1
            ins = marker_line(k, rng.random() < .15)
            ch = {"range": {"start": {"line": j, "character": 0}, "end": {"line": j, "character": 0}}, "text": ins}
            chs = [ch]
            new = lspmodel.apply_change(cur, ch)
            if rng.random() < .2:
                k += 1; ch2 = {"range": {"start": {"line": j, "character": 0}, "end": {"line": j, "character": 0}}, "text": marker_line(k, False)}; chs.append(ch2); new = lspmodel.apply_change(new, ch2)
            ver[u] += 1; docs[u] = new; ops.append({"op": "change", "uri": u, "changes": chs, "k": k, "v": ver[u]}); npub[u] = npub.get(u, 0) + 1
        elif c < .5:
            docs[u] = None; ops.append({"op": "close", "uri": u})
        else:
            rid += 1
            kind = rng.choice(["text", "text", "fold", "hover", "format", "semtok", "refs"])
            if kind == "text": ops.append({"op": "read", "id": rid, "uri": u, "kind": "text", "expect": docs.get(u)})
            elif kind == "fold":
                t = docs.get(u)
                if t is None: exp = []
                else:
                    ls = t.split("\n"); exp = []
                    for j, l in enumerate(ls):
                        if l.startswith("proc "):
                            e = next(x for x in range(j, len(ls)) if ls[x] == "}")
                            exp.append([j, e])
                ops.append({"op": "read", "id": rid, "uri": u, "kind": "fold", "expect": exp})
            elif kind == "refs":
                # references of `helper`: every location has to lie in the document that was asked about (twins with identical text exist)
                t = docs.get(u); pos = {"line": 0, "character": 0}
                if t is not None:
                    j = next((j for j, l in enumerate(t.split("\n")) if l.startswith("proc helper(")), 0); pos = {"line": j, "character": 6}
                ops.append({"op": "read", "id": rid, "uri": u, "kind": "refs", "pos": pos, "expect": t is not None})
            elif kind in ("format", "semtok"):
                # expensive requests between cheap ones: answered in order, from the document as written so far
                ops.append({"op": "read", "id": rid, "uri": u, "kind": kind, "expect": docs.get(u)})
            else:
                t = docs.get(u)
                # hover on the most recent marker call: present exactly if that write has been applied
                exp = None; pos = {"line": 0, "character": 0}
                if t is not None:
                    ls = t.split("\n"); js = [j for j, l in enumerate(ls) if l.startswith("    printi(")]
                    if js: j = rng.choice(js); pos = {"line": j, "character": 5}; exp = {"line": j, "len": 6}
                ops.append({"op": "read", "id": rid, "uri": u, "kind": "hover", "pos": pos, "expect": exp})
    return ops, docs, npub


def to_message(op):
    if op["op"] == "open": return {"jsonrpc": "2.0", "method": "textDocument/didOpen", "params": {"textDocument": {"uri": op["uri"], "languageId": "spl", "version": 0, "text": op["text"]}}}
    if op["op"] == "change": return {"jsonrpc": "2.0", "method": "textDocument/didChange", "params": {"textDocument": {"uri": op["uri"], "version": op.get("v", op["k"])}, "contentChanges": op["changes"]}}
    if op["op"] == "close": return {"jsonrpc": "2.0", "method": "textDocument/didClose", "params": {"textDocument": {"uri": op["uri"]}}}
    if op["kind"] == "text": return {"jsonrpc": "2.0", "id": op["id"], "method": "$/verif/text", "params": {"uri": op["uri"]}}
    if op["kind"] == "format": return {"jsonrpc": "2.0", "id": op["id"], "method": "textDocument/formatting", "params": {"textDocument": {"uri": op["uri"]}, "options": {"tabSize": 4, "insertSpaces": True}}}
    if op["kind"] == "semtok": return {"jsonrpc": "2.0", "id": op["id"], "method": "textDocument/semanticTokens/full", "params": {"textDocument": {"uri": op["uri"]}}}
    if op["kind"] == "fold": return {"jsonrpc": "2.0", "id": op["id"], "method": "textDocument/foldingRange", "params": {"textDocument": {"uri": op["uri"]}}}
    if op["kind"] == "refs": return {"jsonrpc": "2.0", "id": op["id"], "method": "textDocument/references", "params": {"textDocument": {"uri": op["uri"]}, "position": op["pos"], "context": {"includeDeclaration": True}}}
    return {"jsonrpc": "2.0", "id": op["id"], "method": "textDocument/hover", "params": {"textDocument": {"uri": op["uri"]}, "position": op["pos"]}}


def run_history(part, binpath, rng, nops, sc_seed):
    caps_on = rng.random() < .8
    caps = {"textDocument": {"publishDiagnostics": {}}} if caps_on else {}
    env = {}
    dpat = rng.choice(["none", "broker", "responder", "both", "jitter"])
    if dpat in ("broker", "both", "jitter"): env["VERIF_DELAY_BROKER_US"] = str(rng.choice([50, 200, 1000]))
    if dpat in ("responder", "both", "jitter"): env["VERIF_DELAY_RESPONDER_US"] = str(rng.choice([50, 200, 1000]))
    if dpat == "jitter": env["VERIF_DELAY_JITTER"] = "1"
    ops, final_docs, npub = scenario(rng, nops, rng.randint(2, 6))
    schedule = rng.choice(["burst", "burst", "stalls", "steady"])
    sc = {"kind": "history", "seed": sc_seed, "schedule": schedule, "delays": env, "diagnostics_capability": caps_on, "nops": nops}
    d = Driver(binpath, env, caps)
    what = "schedule=%s delays=%s caps=%s" % (schedule, dpat, caps_on)
    try:
        # twins of the final contents, opened fresh at the very end under new URIs (oracle for the last diagnostics)
        twins = {}
        for u, t in final_docs.items():
            if t is not None: twins[u] = "file:///c20/twin%d.spl" % len(twins)
        for op in ops: d.write(to_message(op))
        for u, tw in twins.items():
            d.write({"jsonrpc": "2.0", "method": "textDocument/didOpen", "params": {"textDocument": {"uri": tw, "languageId": "spl", "version": 0, "text": final_docs[u]}}})
        last_id = 10 ** 6
        # a read that passes through the broker behind the twins: when it is answered, their diagnostics have been queued
        # (shutdown itself is answered by the reader task and does not wait for the broker)
        sync = {"op": "read", "id": last_id - 1, "uri": "file:///c20/none.spl", "kind": "text", "expect": None}
        ops = ops + [sync]; d.write(to_message(sync))
        d.write({"jsonrpc": "2.0", "id": last_id, "method": "shutdown"})
        # a quarter of the histories end without waiting: exit is pipelined directly behind shutdown, so the process is told to end
        # while answers may still be queued in front of the responder (every one of them has to be written before it ends)
        pipelined_bye = rng.random() < .25
        if pipelined_bye: d.write({"jsonrpc": "2.0", "method": "exit"}); what += " goodbye=pipelined"; sc["pipelined_goodbye"] = True
        reads = [op for op in ops if op["op"] == "read"]
        deadline = time.monotonic() + 1500; t_start = time.monotonic(); busy_since = None
        stall_until = 0; alive = True
        done = lambda: any(m.get("id") == last_id and "method" not in m for m in d.msgs)
        last_progress = time.monotonic(); seen = 0
        while alive and not done():
            if len(d.msgs) != seen or d.out: seen = len(d.msgs); last_progress = time.monotonic()
            if time.monotonic() - last_progress > 20 and not d.out:
                # everything is written, nothing has arrived for 20 s: silent server or merely slow?
                from .c18 import proc_quiescent
                if proc_quiescent(d.p.pid):
                    part.fail("%s: the server went silent: %d request(s) unanswered, nothing received for 20 s, all its threads sleeping and no CPU time consumed" % (what, d.inflight()), sc); return
                # still computing (a loaded machine, a sanitizer build): no verdict from the clock as long as it works
                if busy_since is None: busy_since = time.monotonic()
                if time.monotonic() - busy_since > 600:
                    part["inconclusive"].append("%s: nothing received for 10 min while the server keeps consuming CPU" % what); return
                last_progress = time.monotonic()
            elif len(d.msgs) != seen: busy_since = None
            if time.monotonic() > deadline:
                part["inconclusive"].append("%s: history not finished after %d s although the server kept answering" % (what, time.monotonic() - t_start)); return
            now = time.monotonic()
            if schedule == "burst": allow = (not d.out) or d.blocked_writes > 3          # read only once everything is written or the pipes are full
            elif schedule == "stalls":
                if now >= stall_until and rng.random() < .02: stall_until = now + rng.choice([0.005, 0.02, 0.1])
                allow = now >= stall_until
            else: allow = True
            alive = d.pump(allow, 0.01)
            d.max_inflight = max(d.max_inflight, d.inflight())
        if not alive and not done():
            err = d.p.stderr.read().decode(errors="replace")[-300:] if d.p.poll() is not None else ""
            part.fail("%s: the server closed its output before answering everything (%d messages received) %s" % (what, len(d.msgs), err), sc); return
        if not pipelined_bye: d.write({"jsonrpc": "2.0", "method": "exit"})
        else: part.cnt("histories_with_pipelined_goodbye")
        t0 = time.monotonic()
        while d.out and time.monotonic() - t0 < 5: d.pump(True, 0.01)
        part.ev(len(ops))
        # orderly end: status 0 after shutdown + exit; a sanitizer build reports data races here (exit 66)
        try:
            d.p.stdin.close(); rc = d.p.wait(20)
        except Exception:
            rc = None
            try: d.p.kill(); d.p.wait(10)          # (did not terminate after exit: reading its stderr would block for ever)
            except Exception: pass
        err = d.p.stderr.read().decode(errors="replace")
        if "ThreadSanitizer" in err or "AddressSanitizer" in err or rc == 66:
            part.fail("%s: sanitizer report: %s" % (what, err[err.find("WARNING"):][:600]), sc); return
        if rc != 0:
            part.fail("%s: exit status %r after shutdown + exit (stderr: %s)" % (what, rc, err[-200:]), sc); return
        # ---- offline checks over the recorded history
        resp = [m for m in d.msgs if "id" in m and "method" not in m]
        ids = [m["id"] for m in resp]
        want_ids = [0] + [op["id"] for op in reads] + [last_id]
        if ids != want_ids:
            i = next((i for i, (x, y) in enumerate(zip(ids, want_ids)) if x != y), min(len(ids), len(want_ids)))
            part.fail("%s: responses are not exactly one per request in request order: position %d has id %r, expected %r (%d responses, %d requests)" % (what, i, ids[i] if i < len(ids) else None, want_ids[i] if i < len(want_ids) else None, len(ids), len(want_ids)), sc); return
        byid = {m["id"]: m for m in resp}
        for op in reads:
            m = byid[op["id"]]
            if "error" in m: part.fail("%s: read %d (%s) answered with an error %r" % (what, op["id"], op["kind"], m["error"]), sc); return
            r = m.get("result")
            if op["kind"] == "text":
                if r != op["expect"]:
                    def ks(t): return sorted(int(x.split("(")[1].split(")")[0]) for x in (t or "").split("\n") if x.strip().startswith(("printi(", "undefinedproc(")))
                    part.fail("%s: read %d of %s returned a text that reflects writes %r, the writes sent before it are %r%s" % (what, op["id"], op["uri"], ks(r) if r is not None else None, ks(op["expect"]) if op["expect"] is not None else None,
                              "" if (r is None) == (op["expect"] is None) else " (document %s)" % ("unknown to the server" if r is None else "should be closed")), sc); return
            elif op["kind"] == "format":
                t = op["expect"]
                def ks(x): return [l.strip() for l in (x or "").split("\n") if l.strip().startswith(("printi(", "undefinedproc("))]
                if t is None:
                    if r is not None: part.fail("%s: formatting read %d answered %r for a closed document" % (what, op["id"], str(r)[:80]), sc); return
                elif r is not None:
                    if not isinstance(r, list) or len(r) != 1 or ks(r[0].get("newText")) != ks(t):
                        part.fail("%s: formatting read %d of %s reflects writes %r, the writes sent before it are %r" % (what, op["id"], op["uri"], ks(r[0].get("newText")) if isinstance(r, list) and r else r, ks(t)), sc); return
            elif op["kind"] == "semtok":
                t = op["expect"]
                if (t is None) != (r is None): part.fail("%s: semanticTokens read %d of %s answered %s, the document is %s" % (what, op["id"], op["uri"], "null" if r is None else "tokens", "closed" if t is None else "open"), sc); return
                if t is not None:
                    from .. import reflex
                    want = sum(1 for k_, v_, a_, b_ in reflex.lex(t) if k_ in reflex.KEYWORDS or k_ in ("int", "hex", "char", "comment") or (k_ == "ident" and v_ != "undefinedproc"))
                    got_n = len(r.get("data", [])) // 5
                    if got_n != want: part.fail("%s: semanticTokens read %d of %s has %d tokens, the document written so far has %d classifiable tokens" % (what, op["id"], op["uri"], got_n, want), sc); return
            elif op["kind"] == "refs":
                if not op["expect"]:
                    if r: part.fail("%s: references read %d answered %r for a closed document" % (what, op["id"], str(r)[:120]), sc); return
                else:
                    if not isinstance(r, list) or not r: part.fail("%s: references read %d of `helper` in %s answered %r" % (what, op["id"], op["uri"], r), sc); return
                    foreign = sorted(set(x.get("uri") for x in r if x.get("uri") != op["uri"]))
                    if foreign: part.fail("%s: references read %d of %s names locations in other documents: %r" % (what, op["id"], op["uri"], foreign), sc); return
                    part.cnt("references_reads_with_all_locations_in_the_asked_document")
            elif op["kind"] == "fold":
                got = [[x["startLine"], x["endLine"]] for x in (r or [])]
                if got != op["expect"]: part.fail("%s: foldingRange read %d of %s returned %r, the writes sent before it imply %r" % (what, op["id"], op["uri"], got, op["expect"]), sc); return
            else:
                e = op["expect"]
                if e is None:
                    if r is not None and op["pos"] != {"line": 0, "character": 0}: part.fail("%s: hover read %d answered %r for a closed document" % (what, op["id"], r), sc); return
                else:
                    rr = (r or {}).get("range")
                    if not rr or rr["start"] != {"line": e["line"], "character": 4} or rr["end"] != {"line": e["line"], "character": 10}:
                        part.fail("%s: hover read %d of %s at line %d answered %r; the writes sent before it put `printi` there" % (what, op["id"], op["uri"], e["line"], r), sc); return
        notes = [m for m in d.msgs if "method" in m]
        if any(m.get("method") != "textDocument/publishDiagnostics" for m in notes):
            part.fail("%s: unexpected server message %r" % (what, [m.get("method") for m in notes if m.get("method") != "textDocument/publishDiagnostics"][:3]), sc); return
        if not caps_on and notes:
            part.fail("%s: %d publishDiagnostics notifications although the client did not announce the capability" % (what, len(notes)), sc); return
        if caps_on:
            per = {}
            for m in notes: per.setdefault(m["params"]["uri"], []).append(m["params"]["diagnostics"])
            for u, tw in twins.items():
                if len(per.get(u, [])) != npub.get(u, 0):
                    part.fail("%s: %d publishDiagnostics for %s, %d open/change notifications were sent for it" % (what, len(per.get(u, [])), u, npub.get(u, 0)), sc); return
                if per[u][-1] != per.get(tw, [None])[-1]:
                    part.fail("%s: the last diagnostics published for %s (%d) differ from those of its final content opened fresh (%s)" % (what, u, len(per[u][-1]), per.get(tw, [None])[-1] and len(per[tw][-1])), sc); return
            part.cnt("final_diagnostics_compared", len(twins))
        part.cnt("reads_checked", len(reads)); part.cnt("histories")
        inflight_bucket = min(d.max_inflight // 50, 10)
        part.see((schedule, dpat, caps_on, inflight_bucket, d.blocked_writes > 0))
        part.add("max_inflight_requests", d.max_inflight)
        if d.blocked_writes: part.cnt("histories_in_which_writes_blocked")
        if len(part["samples"]) < 1: part.sample({"part": "history", "schedule": schedule, "delays": env, "operations": len(ops), "reads": len(reads), "max_in_flight_reads": d.max_inflight, "write_blocked_events": d.blocked_writes, "first_ops": [dict(o, text="...") if "text" in o else o for o in ops[:4]]}, 1)
    except FrameError as e:
        part.fail("%s: malformed output frame: %s" % (what, e), sc)
    finally:
        d.kill()


def worker(args):
    seed, nhist, nops, variant = args
    binpath = server_bin(variant); part = Part()
    for i in range(nhist):
        s = "%s/%d" % (seed, i)
        t0 = time.monotonic()
        run_history(part, binpath, random.Random("C20/" + s), nops if (i % (6 if nhist <= 6 else 3) or variant != "rel") else nops * (2 if nhist <= 6 else 4), s)
        part.add("slowest_history_seconds", int(time.monotonic() - t0) // 10 * 10)
    return part


def run(ctx):
    server_bin("rel")
    nh, nops = (6, 250) if ctx.quick else (60, 500)
    for p in pmap(worker, [("%s/%d" % (ctx.seed, i), nh, nops, "rel") for i in range(NCPU)]): ctx.merge(p)
    if not ctx.quick:
        server_bin("tsan"); before = ctx.extra.get("counters", {}).get("histories", 0)
        for p in pmap(worker, [("%s/tsan/%d" % (ctx.seed, i), 12, 250, "tsan") for i in range(NCPU)]): ctx.merge(p)
        ctx.extra["sanitizer"] = {"build": "ThreadSanitizer (nightly -Zsanitizer=thread -Zbuild-std)", "histories": ctx.extra.get("counters", {}).get("histories", 0) - before,
                                  "reports": "a report (exit 66 / WARNING: ThreadSanitizer on stderr) is a violation; none seen unless listed under violations"}
    mi = ctx.extra.get("_sets", {}).get("max_inflight_requests", set())
    ctx.extra["max_in_flight_reads_seen"] = max(mi) if mi else 0
    ctx.extra.get("_sets", {}).pop("max_inflight_requests", None)
    ctx.rule = ("histories of 250-2000 pipelined operations over 2-6 documents (open / uniquely numbered change / close / reopen / reads via $/verif/text, foldingRange, hover), written in bursts without "
                "reading until the pipes block, with reader stalls, or steadily; delay failpoints in broker/responder (fixed or jittered); with and without the publishDiagnostics capability; URIs differing "
                "only in scheme; distinct_nontrivial = distinct (schedule, delay pattern, capability, in-flight depth bucket, writes blocked) combinations")
    ctx.assumptions = ["one FIFO reader: the only legal linearisation is the client's send order", "hook H1 ($/verif/text) and H3 (delay failpoints) of the `verif` feature"]
    ctx.floor("evaluations", ctx.evaluations, 10000)
    ctx.floor("reads checked", ctx.extra.get("counters", {}).get("reads_checked", 0), 3000)
    ctx.floor("histories in which writes blocked (burst larger than the pipes)", ctx.extra.get("counters", {}).get("histories_in_which_writes_blocked", 0), 5)


def replay(ctx, sc):
    part = Part()
    run_history(part, server_bin("rel"), random.Random("C20/" + sc["seed"]), sc["nops"], sc["seed"])
    ctx.merge(part); ctx.see(1); ctx.see(2)
