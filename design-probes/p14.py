from lsp import *
from splgen import *
import sys, collections, random
N = int(sys.argv[1])
S = Server()
stat = collections.Counter(); ex = {}
def note(k, info):
    stat[k] += 1
    if k not in ex: ex[k] = info
for seed in range(N):
    rng = random.Random(seed)
    g = Gen(rng).program()
    text = layout(g.toks, random.Random(seed))
    tb = text.encode(); uri = "file:///k.spl"
    S.open(uri, text)
    allprocs = set(p.name for p in g.procs) | set(BUILTINS)
    alltypes = set(t.name for t in g.types) | {"int"}
    def comp(off):
        l, c = pos_of(tb, off)
        r = S.request("textDocument/completion", tdp(uri, l, c)).get("result")
        return r
    # statement starts: cursor right at the start of first token of a statement
    for (ti, proc) in g.stmt_starts:
        if ti >= len(g.toks): continue
        tk = g.toks[ti]
        if tk.start is None: continue
        prev = g.toks[ti - 1]
        # cursor in the gap just after previous token (+1 if whitespace exists)
        off = prev.end + (1 if tk.start > prev.end else 0)
        r = comp(off)
        vars_exp = set(v.name for v in proc.params + proc.locals)
        if r is None: note("BAD stmt-start none after '%s'" % prev.text[:6], (seed, text[prev.start-20:tk.end+5])); continue
        gv = set(i["label"] for i in r if i.get("kind") == 6); gp = set(i["label"] for i in r if i.get("kind") == 3)
        ok = gv == vars_exp and gp == allprocs
        note(("ok " if ok else "BAD ") + "stmt-start after '%s'" % (prev.text if prev.kind in ("sym","kw") else prev.kind), (seed, sorted(gv), sorted(vars_exp), sorted(gp ^ allprocs), text[prev.start-20:tk.end+5]))
    # type positions: after ':' in params/vars
    for p in g.procs:
        for v in p.params + p.locals:
            colon = g.toks[v.name_tok.idx + 1]
            nxt = g.toks[colon.idx + 1]
            off = colon.end + (1 if nxt.start > colon.end else 0)
            r = comp(off)
            gt = set(i["label"] for i in (r or []) if i.get("kind") == 22)
            ok = r is not None and gt == alltypes
            note(("ok " if ok else "BAD ") + "type-pos %s" % v.kind, (seed, sorted(gt), sorted(alltypes), text[v.name_tok.start-10:nxt.end+5]))
    # top-level gap: after last token of a declaration
    decls = sorted(g.types + g.procs, key=lambda d: d.first_tok.idx)
    for d in decls:
        off = d.last_tok.end
        nxt = g.toks[d.last_tok.idx + 1] if d.last_tok.idx + 1 < len(g.toks) else None
        if nxt is not None and nxt.start == off: continue
        off += 1 if off < len(tb) else 0
        r = comp(off)
        labels = sorted(i["label"] for i in (r or []))
        ok = r is not None and set(labels) <= {"proc", "type", "main"} and "proc" in labels and "type" in labels
        note(("ok " if ok else "BAD ") + "top-level after %s" % d.kind, (seed, labels, text[d.last_tok.start-20:off+10]))
for k in sorted(stat): print(stat[k], k, str(ex[k])[:500] if k.startswith("BAD") else "")
