use spl_frontend::{AnalyzedSource, TextChange, ErrorContainer, lexer};
use std::panic;
struct Rng(u64);
impl Rng {
    fn next(&mut self) -> u64 { self.0 = self.0.wrapping_add(0x9E3779B97F4A7C15); let mut z = self.0; z = (z ^ (z >> 30)).wrapping_mul(0xBF58476D1CE4E5B9); z = (z ^ (z >> 27)).wrapping_mul(0x94D049BB133111EB); z ^ (z >> 31) }
    fn below(&mut self, n: usize) -> usize { (self.next() % n as u64) as usize }
    fn pick<'a, T>(&mut self, v: &'a [T]) -> &'a T { &v[self.below(v.len())] }
}
const TOKS: &[&str] = &["proc", "type", "var", "if", "else", "while", "array", "of", "ref", "int", "x", "y", "f", "(", ")", "[", "]", "{", "}", ";", ":", ":=", "=", "<", "+", "-", "*", ",", "1", "// c\n"];
const PROGS: &[&str] = &[
 "proc f(x: int, y: int) { x := 1; y := x + 2; }",
 "proc f() { var x: int; var y: int; x := 1; }",
 "type A = array [3] of int; proc f(ref a: A) { a[1] := 2; }",
 "proc f() { if (x < 1) { x := 1; } else { y := 2; } }",
 "proc f() { while (x < 1) { f(); x := 1; } }",
 "proc f() { f(x, y + 1, 3); }",
 "proc f() { x := (1 + y) * -x; }",
 "proc f() { } proc g() { } type T = int;",
 "proc f() { { x := 1; { y := 2; } } ; }",
 "proc f() { x := a[1][y]; if (x = 1) y := 2; else y := 3; }",
 "// d\nproc f() { // c\n x := 1; }",
];
fn tokens_of(s: &str) -> Vec<(usize, usize)> { lexer::lex(s).iter().map(|t| (t.range.start, t.range.end)).collect() }
fn main() {
    let args: Vec<String> = std::env::args().collect();
    let seed: u64 = args[1].parse().unwrap(); let iters: usize = args[2].parse().unwrap();
    panic::set_hook(Box::new(|_| {}));
    let mut r = Rng(seed);
    let mut seen = std::collections::BTreeSet::new();
    let mut n = 0; let mut d = 0;
    for _ in 0..iters {
        let text = (*r.pick(PROGS)).to_string();
        let toks = tokens_of(&text);
        // token-level edit: delete k tokens at position i, insert m tokens
        let i = r.below(toks.len());
        let k = r.below(3).min(toks.len() - 1 - i.min(toks.len()-1));
        let m = r.below(3);
        if k == 0 && m == 0 { continue; }
        let start = toks[i].0;
        let end = if k == 0 { start } else { toks[i + k - 1].1 };
        let mut ins = String::new();
        for _ in 0..m { ins += *r.pick(TOKS); ins += " "; }
        let ch = TextChange { range: start..end, text: ins };
        let mut nt = text.clone(); nt.replace_range(ch.range.clone(), &ch.text);
        n += 1;
        let cur = AnalyzedSource::new(text.clone());
        let fresh = match panic::catch_unwind(|| AnalyzedSource::new(nt.clone())) { Ok(a) => a, Err(_) => { println!("PANIC-NEW {:?}", nt); continue } };
        let chc = ch.clone();
        match panic::catch_unwind(move || cur.update(vec![chc])) {
            Err(e) => { let m = e.downcast_ref::<String>().cloned().or(e.downcast_ref::<&str>().map(|s| s.to_string())).unwrap_or_default(); println!("PANIC-UPD {:?} {:?} {}", text, ch, m); }
            Ok(u) => {
                let lexd = u.tokens != fresh.tokens;
                let astd = u.ast != fresh.ast;
                let e1 = panic::catch_unwind(|| u.errors()).ok(); let e2 = panic::catch_unwind(|| fresh.errors()).ok();
                let errd = e1 != e2;
                if lexd || astd || errd {
                    d += 1;
                    let key = format!("{:?} -> {:?}", text, nt);
                    if seen.insert(key.clone()) { println!("DIV lex={} ast={} err={} {} del={:?}", lexd, astd, errd, key, &text[ch.range.clone()]); }
                }
            }
        }
    }
    println!("n={} div={} distinct={}", n, d, seen.len());
}
