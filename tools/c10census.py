#!/usr/bin/python3
"""census of comment fates per gap class (build-time tool; output feeds known_findings.json)"""
import sys, random, json, collections
sys.path.insert(0, '/verif')
from harness import gen, layout, feat, fmt
from harness.gen import Tok
from harness.checks import c10
from harness.core import pmap, NCPU, server_bin

def work(seed):
    rng = random.Random("census/%s" % seed); sess = feat.Session()
    fate = collections.defaultdict(lambda: [0, 0]); ex = {}
    for it in range(40):
        P = gen.generate(rng.getrandbits(32), size=rng.choice([1, 2, 3]), depth=rng.choice([1, 2, 3, 4]), edepth=2, typed=rng.random() < .7, docs=0, stmt_comments=0)
        c10.strip_comments(P); eol = "\n"
        layout.assign_ws(P.toks, rng, rng.choice(["random", "spaced", "lines"]), eol)
        cls = c10.annotate(P)
        for t in list(P.toks) + [None]:
            c = Tok("comment", "// only")
            if t is None: P.trail = [c]; k = ("Program", "eof", "top")
            else: t.lead = [c]; k = cls[t.uid]
            text = layout.render(P.index(), eol)
            uri = sess.open(text, "cen"); res = fmt.format_request(sess, uri, {"tabSize": 4, "insertSpaces": True}); sess.close(uri)
            new, problem = fmt.apply_format(text, res)
            ok = problem is None and c10.comments_of(new) == c10.comments_of(text)
            fate["/".join(k)][0 if ok else 1] += 1
            if not ok: ex.setdefault("/".join(k), text)
            if t is None: P.trail = []
            else: t.lead = []
    sess.kill()
    return dict(fate), ex
if __name__ == "__main__":
    server_bin("rel")
    tot = collections.defaultdict(lambda: [0, 0]); exs = {}
    for fate, ex in pmap(work, range(int(sys.argv[1]) if len(sys.argv) > 1 else 32)):
        for k, (a, b) in fate.items(): tot[k][0] += a; tot[k][1] += b
        for k, v in ex.items():
            if k not in exs or len(v) < len(exs[k]): exs[k] = v
    json.dump({"fate": tot, "examples": exs}, open("/tmp/c10census.json", "w"), indent=1)
    for k in sorted(tot): print("%-50s kept %5d lost %5d %s" % (k, tot[k][0], tot[k][1], "MIXED" if tot[k][0] and tot[k][1] else ""))
