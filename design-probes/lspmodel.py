"""reference LSP text model (probe)"""
import re
def lines_of(text):
    # returns list of (line_text_without_eol, eol)
    out = []; i = 0
    for m in re.finditer(r"\r\n|\r|\n", text):
        out.append((text[i:m.start()], m.group())); i = m.end()
    out.append((text[i:], ""))
    return out
def offset(text, line, ch):
    """position -> python str index (code points)"""
    ls = lines_of(text); pos = 0
    if line >= len(ls): return len(text)
    for k in range(line): pos += len(ls[k][0]) + len(ls[k][1])
    lt = ls[line][0]; u = 0; j = 0
    while j < len(lt) and u < ch:
        u += 2 if ord(lt[j]) > 0xFFFF else 1; j += 1
    return pos + j
def apply(text, change):
    if "range" not in change or change["range"] is None: return change["text"]
    a = offset(text, change["range"]["start"]["line"], change["range"]["start"]["character"])
    b = offset(text, change["range"]["end"]["line"], change["range"]["end"]["character"])
    return text[:a] + change["text"] + text[b:]
def position(text, idx):
    before = text[:idx]; ls = lines_of(before)
    line = len(ls) - 1; col = sum(2 if ord(c) > 0xFFFF else 1 for c in ls[-1][0])
    return line, col
