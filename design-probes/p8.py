from lsp import *
from splgen import *
import time
t=time.time()
s = Server(binpath="/tmp/probe/vg.sh")
for seed in range(5):
    g, text = generate(seed)
    uri = "file:///v%d.spl" % seed
    s.open(uri, text)
    s.diags(uri)
    s.request("textDocument/formatting", {"textDocument": {"uri": uri}, "options": {"tabSize": 4, "insertSpaces": True}}, timeout=60)
    s.request("textDocument/semanticTokens/full", {"textDocument": {"uri": uri}}, timeout=60)
print("exit", s.close(), time.time()-t)
