from lsp import *
from splgen import *
import sys, collections, re
N = int(sys.argv[1]); methods = sys.argv[2].split(",")
stat = collections.Counter(); ex = {}
def note(k, info):
    stat[k] += 1
    if k not in ex: ex[k] = info
def rng_of(tb, tk):
    a = pos_of(tb, tk.start); b = pos_of(tb, tk.end)
    return {"start": {"line": a[0], "character": a[1]}, "end": {"line": b[0], "character": b[1]}}
class Sess:
    def __init__(self): self.s = Server(); self.docs = {}
    def open(self, uri, text): self.docs[uri] = text; self.s.open(uri, text)
    def req(self, method, params, ctx):
        try:
            return self.s.request(method, params)
        except (EOFError, TimeoutError) as e:
            msg = re.sub(r"\x1b\[[0-9;]*m", "", str(e))
            m = re.search(r"Message:\s+(.*)\nLocation:\s+(.*)\n", msg)
            note("CRASH %s %s" % (method, (m.group(1) + " @ " + m.group(2)) if m else repr(e)[:80]), ctx)
            self.s = Server()
            for u, t in self.docs.items(): self.s.open(u, t)
            return None
S = Sess()
def binding_key(b): return id(b) if isinstance(b, Decl) else b
for seed in range(N):
    g, text = generate(seed)
    tb = text.encode()
    uri = "file:///v%d.spl" % seed
    S.docs = {}
    S.open(uri, text)
    ids = [t for t in g.toks if t.kind == "id"]
    for tk in ids:
        line, col = pos_of(tb, tk.start)
        b = tk.bind
        bk = "builtin" if not isinstance(b, Decl) else b.kind
        if "references" in methods:
            r = S.req("textDocument/references", dict(tdp(uri, line, col), context={"includeDeclaration": True}), (seed, tk.text, line, col))
            if r is not None:
                res = r.get("result")
                exp = [rng_of(tb, t) for t in ids if t is not tk and binding_key(t.bind) == binding_key(b)]
                got = [x["range"] for x in res] if res is not None else None
                key = lambda x: (x["start"]["line"], x["start"]["character"], x["end"]["line"], x["end"]["character"])
                if b == "builtin:int": ok = True  # unspecified
                else: ok = got is not None and sorted(map(key, got)) == sorted(map(key, exp))
                note(("ok " if ok else "BAD ") + "references/%s/%s" % (bk, tk.role), (seed, tk.text, line, col, got, exp))
        if "hover" in methods:
            r = S.req("textDocument/hover", tdp(uri, line, col), (seed, tk.text, line, col))
            if r is not None:
                res = r.get("result")
                if isinstance(b, Decl):
                    if b.kind == "proc": sig = "proc %s(%s)" % (b.name, ", ".join(("ref " if p.is_ref else "") + p.name + ": " + p.ty.show() for p in b.params))
                    elif b.kind == "type": sig = b.ty.show()
                    else: sig = ("ref " if b.is_ref else "") + b.name + ": " + b.ty.show()
                    ok = res is not None and res["range"] == rng_of(tb, tk) and res["contents"]["value"].startswith("```spl\n" + sig + "\n```")
                    if ok and b.doc:
                        ok = all(d.text[2:].strip() in res["contents"]["value"] for d in b.doc)
                        if not ok: note("BAD hover-doc/%s" % bk, (seed, tk.text, res["contents"]["value"], [d.text for d in b.doc]))
                else:
                    ok = res is not None and res["range"] == rng_of(tb, tk)
                note(("ok " if ok else "BAD ") + "hover/%s/%s" % (bk, tk.role), (seed, tk.text, line, col, res, sig if isinstance(b, Decl) else None))
        if "prepareRename" in methods:
            r = S.req("textDocument/prepareRename", tdp(uri, line, col), (seed,))
            if r is not None:
                res = r.get("result")
                ok = (res == rng_of(tb, tk)) if tk.text != "int" else res is None
                note(("ok " if ok else "BAD ") + "prepareRename/%s" % bk, (seed, tk.text, res))
        if "rename" in methods and isinstance(b, Decl):
            r = S.req("textDocument/rename", dict(tdp(uri, line, col), newName="zzNew"), (seed, tk.text, line, col))
            if r is not None:
                res = r.get("result")
                exp = [rng_of(tb, t) for t in ids if binding_key(t.bind) == binding_key(b)]
                got = [e["range"] for e in res["changes"][uri]] if res else None
                key = lambda x: (x["start"]["line"], x["start"]["character"], x["end"]["line"], x["end"]["character"])
                ok = got is not None and sorted(map(key, got)) == sorted(map(key, exp))
                note(("ok " if ok else "BAD ") + "rename/%s/%s" % (bk, tk.role), (seed, tk.text, line, col, got, exp))
    if "fold" in methods:
        r = S.req("textDocument/foldingRange", {"textDocument": {"uri": uri}}, (seed,))
        if r is not None:
            exp = [(pos_of(tb, p.kw_tok.start)[0], pos_of(tb, p.last_tok.end)[0]) for p in g.procs]
            got = [(x["startLine"], x["endLine"]) for x in r["result"]]
            note(("ok " if got == exp else "BAD ") + "fold", (seed, got, exp))
    if "semtok" in methods:
        r = S.req("textDocument/semanticTokens/full", {"textDocument": {"uri": uri}}, (seed,))
        if r is not None:
            data = r["result"]["data"]
            line = col = 0; dec = []
            for i in range(0, len(data), 5):
                dl, ds, ln, ty, mod = data[i:i+5]
                if dl: line += dl; col = ds
                else: col += ds
                dec.append((line, col, ln, ty, mod))
            # expected
            exp = []
            kinds = {"type": 3, "proc": 4, "param": 5, "var": 6}
            for t in g.toks:
                l, c = pos_of(tb, t.start)
                ln = len(t.text.encode("utf-16-le")) // 2
                if t.kind == "comment": exp.append((l, c, ln, 0, 0))
                elif t.kind == "kw": exp.append((l, c, ln, 1, 0))
                elif t.kind == "int": exp.append((l, c, ln, 2, 0))
                elif t.kind == "id":
                    b = t.bind
                    if isinstance(b, Decl): exp.append((l, c, ln, kinds[b.kind], 1 if t.role == "decl" else 0))
                    elif b == "builtin:int": exp.append((l, c, ln, 3, 0))
                    else: exp.append((l, c, ln, 4, 0))
            # compare ignoring comment length (+1 newline) and modifiers separately
            def norm(x, withmod): return [(a, b2, (c if ty else 0), ty, (m if withmod else 0)) for (a, b2, c, ty, m) in x]
            if norm(dec, True) == norm(exp, True): note("ok semtok", None)
            elif norm(dec, False) == norm(exp, False): note("BAD semtok-modifiers-only", (seed, [d for d in dec if d[4]], [e for e in exp if e[4]][:3]))
            else:
                diff = [(d, e) for d, e in zip(norm(dec, False), norm(exp, False)) if d != e][:2]
                note("BAD semtok", (seed, len(dec), len(exp), diff))
    if "sighelp" in methods:
        for (ntok, lp, rp, commas, callee, proc) in g.calls:
            # cursor positions: right after '(' and after each comma, and just before ')'
            pts = [(lp.end, 0)] + [(c.end, i + 1) for i, c in enumerate(commas)] + [(rp.start, len(commas))]
            for off, idx in pts:
                l, c = pos_of(tb, off)
                r = S.req("textDocument/signatureHelp", tdp(uri, l, c), (seed, ntok.text, l, c))
                if r is None: continue
                res = r.get("result")
                if isinstance(callee, Decl):
                    params = [("ref " if p.is_ref else "") + p.name + ": " + p.ty.show() for p in callee.params]
                    label = "proc %s(%s)" % (callee.name, ", ".join(params))
                else:
                    params = None; label = None
                ok = res is not None and len(res["signatures"]) == 1
                if ok and label is not None:
                    sg = res["signatures"][0]
                    ok = sg["label"] == label and [p["label"] for p in sg["parameters"]] == params and (res.get("activeParameter") == idx if params else res.get("activeParameter") is None)
                elif ok:
                    sg = res["signatures"][0]
                    n = len(BUILTINS[callee.split(":")[1]])
                    ok = len(sg["parameters"]) == n and (res.get("activeParameter") == idx if n else True)
                note(("ok " if ok else "BAD ") + "sighelp/%s" % ("decl" if label else "builtin"), (seed, ntok.text, l, c, idx, res, label))
for k in sorted(stat): print(stat[k], k, str(ex[k])[:600] if k.startswith(("BAD","CRASH")) else "")
