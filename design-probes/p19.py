import subprocess, json, time, os, re, glob
exec(open("p18.py").read().split("def run(")[0])
def blocked_on_stdin(pid):
    for f in glob.glob("/proc/%d/task/*/syscall" % pid):
        try:
            s = open(f).read().split()
            if s and s[0] == "0" and s[1] == "0x0": return True
        except Exception: pass
    return False
def children(pid):
    out = subprocess.run(["pgrep", "-P", str(pid)], capture_output=True, text=True).stdout.split()
    return [int(x) for x in out]
def run(segments, strace=False):
    cmd = [BIN]
    if strace: cmd = ["strace", "-f", "-e", "trace=read", "-o", "/tmp/probe/st.log", BIN]
    p = subprocess.Popen(cmd, stdin=subprocess.PIPE, stdout=subprocess.PIPE, stderr=subprocess.PIPE)
    pid = p.pid
    if strace:
        while not children(pid): time.sleep(0.001)
        pid = children(pid)[0]
    for s in segments:
        t0 = time.time()
        while not blocked_on_stdin(pid):
            if time.time() - t0 > 5: raise Exception("never blocked")
            time.sleep(0.0005)
        os.write(p.stdin.fileno(), s)
    p.stdin.close()
    out = p.stdout.read(); rc = p.wait()
    return rc, out
ref = run([sess])
r = run([sess[:100], sess[100:130], sess[130:]], strace=True)
sizes = [int(m.group(1)) for m in re.finditer(r"read\(0, .*\) = (\d+)", open("/tmp/probe/st.log").read())]
print("ok", r == ref, "read(0) sizes", sizes)
t = time.time(); bad = 0
for k in range(1, len(sess)):
    if run([sess[:k], sess[k:]]) != ref: bad += 1
print("handshaked splits", len(sess) - 1, "bad", bad, round(time.time() - t, 1))
t = time.time()
r = run([sess[i:i+1] for i in range(len(sess))])
print("byte-at-a-time ok", r == ref, round(time.time() - t, 1))
