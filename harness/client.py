"""JSON-RPC client over the stdio of the built server, with an append-only event log and process supervision.
Everything is observed at the client boundary: a `call` event is logged before the bytes are written, a
`return` event when the reply frame is complete (one monotonic clock)."""
import json, os, re, select, subprocess, tempfile, time, signal

ANSI = re.compile(r"\x1b\[[0-9;]*m")


class ServerDied(Exception):
    def __init__(s, status, stderr, pending=None):
        s.status, s.stderr, s.pending = status, stderr, pending
        Exception.__init__(s, "server exited with %r: %s" % (status, panic_signature(stderr)))


class FrameError(Exception):
    pass


class Timeout(Exception):
    pass


def panic_signature(stderr):
    """(message, location) of the first panic block on stderr (color-eyre format or the default hook)"""
    t = ANSI.sub("", stderr or "")
    m = re.search(r"(ERROR: AddressSanitizer[^\n]*|WARNING: ThreadSanitizer[^\n]*|ERROR: LeakSanitizer[^\n]*)", t)
    if m:
        fr = re.search(r"#\d+ \S+ in (\S*(?:lsp4spl|spl_frontend)\S*)", t)
        return (m.group(1), fr.group(1) if fr else "")
    m = re.search(r"Message:\s+(.*?)\nLocation:\s+(\S+)", t, re.S)
    if m: return (" ".join(m.group(1).split()), m.group(2))
    m = re.search(r"panicked at ([^\n]*?):\n(.*?)\n", t, re.S)
    if m: return (" ".join(m.group(2).split()), m.group(1))
    m = re.search(r"Error:\s*(.*?)\n\s*\n", t, re.S)
    if m: return ("Error: " + " ".join(m.group(1).split())[:200], "")
    return (t.strip()[-200:], "")


def frame(obj):
    body = json.dumps(obj, ensure_ascii=False, separators=(",", ":")).encode()
    return b"Content-Length: %d\r\n\r\n" % len(body) + body


class FrameParser:
    """strict parser of the server's output: `Content-Length: N\\r\\n\\r\\n` + exactly N bytes of UTF-8 JSON"""
    HDR = re.compile(rb"Content-Length: (\d+)\r\n\r\n")
    PARTIAL = re.compile(rb"Content-Length: \d*(\r(\n(\r)?)?)?")

    def __init__(s): s.buf = b""; s.frames = 0

    def feed(s, data): s.buf += data

    def next(s):
        if not s.buf: return None
        m = s.HDR.match(s.buf)
        if not m:
            if s.PARTIAL.fullmatch(s.buf) or b"Content-Length: ".startswith(s.buf): return None
            raise FrameError("bad header: %r" % s.buf[:60])
        n = int(m.group(1)); a = m.end()
        if len(s.buf) < a + n: return None
        body = s.buf[a:a + n]; s.buf = s.buf[a + n:]
        try:
            obj = json.loads(body.decode("utf-8"))
        except Exception as e:
            raise FrameError("body is not UTF-8 JSON (%s): %r" % (e, body[:80]))
        s.frames += 1
        return obj


class Server:
    def __init__(s, binpath, diagnostics=True, env=None, initialize=True, log=None, argv=None, stdin_mode="pipe"):
        e = dict(os.environ); e["RUST_BACKTRACE"] = "0"; e["NO_COLOR"] = "1"
        if env: e.update(env)
        s.errf = tempfile.TemporaryFile()
        s.p = subprocess.Popen((argv or []) + [binpath], stdin=subprocess.PIPE, stdout=subprocess.PIPE, stderr=s.errf, env=e, bufsize=0)
        s.fd_in = s.p.stdin.fileno(); s.fd_out = s.p.stdout.fileno()
        s.parser = FrameParser(); s.id = 0; s.notes = []; s.responses = {}
        s.log = log if log is not None else []; s.n = 0; s.diagnostics = diagnostics
        s.ev("proc", "spawn", pid=s.p.pid)
        s.caps = None
        if initialize:
            caps = {"textDocument": {"publishDiagnostics": {}}} if diagnostics else {}
            s.caps = s.request("initialize", {"capabilities": caps})
            s.notify("initialized", {})

    # ---- event log
    def ev(s, direction, kind, **kw):
        s.n += 1
        d = {"n": s.n, "t": time.monotonic(), "dir": direction, "kind": kind}; d.update(kw)
        s.log.append(d)

    # ---- sending
    def send_raw(s, b):
        """writes everything; the server's output is read only while its input pipe is full (so a client that pipelines a long
        burst does not deadlock against a server that is blocked on its own output, and otherwise does not read at all)"""
        view = memoryview(b)
        if not getattr(s, "_nb", False):
            os.set_blocking(s.fd_in, False); s._nb = True
        while view:
            try:
                k = os.write(s.fd_in, view[:1 << 16])
            except BlockingIOError:
                r, w, _ = select.select([s.fd_out], [s.fd_in], [], 30)
                if r and not w:
                    d = os.read(s.fd_out, 1 << 16)
                    if not d: s._died()
                    s.parser.feed(d)
                elif not r and not w:
                    raise Timeout("server reads no input and writes no output for 30 s")
                continue
            except BrokenPipeError:
                s._died()
            view = view[k:]

    def send(s, obj):
        b = frame(obj)
        s.ev("c2s", "request" if "id" in obj and "method" in obj else "notification", id=obj.get("id"), method=obj.get("method"), bytes=len(b))
        s.send_raw(b)

    def notify(s, method, params):
        s.send({"jsonrpc": "2.0", "method": method, "params": params})

    def post(s, method, params):
        """send a request without waiting; returns its id"""
        s.id += 1
        s.send({"jsonrpc": "2.0", "id": s.id, "method": method, "params": params})
        return s.id

    # ---- receiving
    def _died(s):
        try: s.p.stdin.close()
        except Exception: pass
        try: st = s.p.wait(10)
        except Exception:
            s.p.kill(); st = s.p.wait()
        err = s.stderr()
        s.ev("proc", "exit", status=st, panic=panic_signature(err) if err.strip() else None)
        raise ServerDied(st, err)

    def pump(s, timeout):
        """read what is available (waiting up to timeout); returns False at EOF"""
        r, _, _ = select.select([s.fd_out], [], [], timeout)
        if not r: return None
        d = os.read(s.fd_out, 1 << 16)
        if not d: return False
        s.parser.feed(d)
        return True

    def read_msg(s, timeout=20):
        deadline = time.monotonic() + timeout
        while True:
            m = s.parser.next()
            if m is not None:
                if "id" in m and "method" not in m:
                    s.ev("s2c", "response", id=m.get("id"), error=("error" in m))
                else:
                    s.ev("s2c", "notification", method=m.get("method"))
                return m
            rem = deadline - time.monotonic()
            if rem <= 0: raise Timeout()
            st = s.pump(rem)
            if st is False: s._died()
            if st is None: raise Timeout()

    def wait_response(s, rid, timeout=20):
        while True:
            m = s.read_msg(timeout)
            if "id" in m and "method" not in m:
                if m["id"] != rid:
                    raise FrameError("response for id %r while waiting for %r" % (m["id"], rid))
                return m
            s.notes.append(m)

    def request(s, method, params, timeout=20):
        rid = s.post(method, params)
        return s.wait_response(rid, timeout)

    # ---- conveniences
    def open(s, uri, text, version=0):
        s.notify("textDocument/didOpen", {"textDocument": {"uri": uri, "languageId": "spl", "version": version, "text": text}})

    def change(s, uri, changes, version=1):
        s.notify("textDocument/didChange", {"textDocument": {"uri": uri, "version": version}, "contentChanges": changes})

    def close_doc(s, uri):
        s.notify("textDocument/didClose", {"textDocument": {"uri": uri}})

    def text_of(s, uri):
        return s.request("$/verif/text", {"uri": uri}).get("result")

    def sync(s, uri="file:///sync"):
        """round trip through reader, broker and responder"""
        return s.request("textDocument/foldingRange", {"textDocument": {"uri": uri}})

    def diags(s, uri):
        """last diagnostics published for uri (after a synchronising round trip); None if none were published"""
        s.sync(uri)
        last = None
        for n in s.notes:
            if n.get("method") == "textDocument/publishDiagnostics" and n["params"]["uri"] == uri: last = n["params"]["diagnostics"]
        return last

    def drop_notes(s): s.notes = []

    def stderr(s):
        try:
            s.errf.seek(0); return s.errf.read().decode(errors="replace")
        except Exception:
            return ""

    def alive(s): return s.p.poll() is None

    def close(s, timeout=10):
        """orderly shutdown; returns the exit status (or None if it had to be killed)"""
        try:
            s.request("shutdown", None, timeout)
            s.notify("exit", None)
            s.p.stdin.close()
            st = s.p.wait(timeout)
            s.ev("proc", "exit", status=st)
            return st
        except Exception:
            s.kill(); return None

    def kill(s):
        try: s.p.kill(); s.p.wait()
        except Exception: pass
        for f in (s.p.stdin, s.p.stdout, s.errf):
            try: f.close()
            except Exception: pass

    def __del__(s):
        try:
            if s.p.poll() is None: s.p.kill(); s.p.wait()
        except Exception: pass


def tdp(uri, line, ch):
    return {"textDocument": {"uri": uri}, "position": {"line": line, "character": ch}}


def tdp_pos(uri, pos):
    return {"textDocument": {"uri": uri}, "position": pos}
