"""C14 — hover and signature help tell the truth about declarations.
Oracle: signature renderer over the generator's ground truth (kind, name, ref marker, fully resolved type; independent of the
implementation's Display impls); call structure (parentheses, commas) known by construction."""
import random
from ..core import Part, pmap, NCPU, server_bin
from ..client import ServerDied, Timeout, FrameError, tdp
from .. import gen, feat


def doc_texts(d):
    return [c.text[2:].strip() for c in d.doc_toks()]


def check_hover(part, sess, uri, P, text, T, rng, max_ids, open_ids=frozenset()):
    ids = feat.idents(P)
    pm = feat.proc_of_tokens(P)
    for tk in (ids if len(ids) <= max_ids else rng.sample(ids, max_ids)):
        l, c = rng.choice(feat.columns(rng, T, tk))
        res = sess.result("textDocument/hover", tdp(uri, l, c)); part.ev()
        b = tk.bind
        kind = b.kind if isinstance(b, gen.Decl) else "predefined"
        sc = {"kind": "hover", "text": text, "line": l, "character": c, "identifier": tk.text}
        if not isinstance(res, dict) or "__error__" in res or "contents" not in res:
            part.fail("hover on %r (%s) at %d:%d answers %r" % (tk.text, kind, l, c, res), sc); continue
        if res.get("range") != feat.rng_of(T, tk):
            part.fail("hover on %r at %d:%d reports range %r, the identifier is at %r" % (tk.text, l, c, res.get("range"), feat.rng_of(T, tk)), sc); continue
        val = res["contents"].get("value", "") if isinstance(res["contents"], dict) else str(res["contents"])
        if isinstance(b, gen.Decl):
            sig = gen.signature(b)
            first = "```spl\n" + sig + "\n```"
            if not val.startswith(first):
                loc = feat.shadowing_local(P, tk, pm)
                if loc is not None and "K-C14-1" in open_ids and val.startswith("```spl\n" + gen.signature(loc) + "\n```"):
                    part.known("K-C14-1", "known class"); part.add("known_classes_seen", "K-C14-1/hover"); continue
                part.fail("hover on %r (%s) shows %r, the declaration is %r" % (tk.text, kind, val[:120], sig), dict(sc, expected=sig)); continue
            rest = val[len(first):]
            docs = doc_texts(b)
            pos = 0; ok = True
            for dtext in docs:
                i = rest.find(dtext, pos)
                if i < 0: ok = False; break
                pos = i + len(dtext)
            if not ok or (not docs and rest.strip()):
                part.fail("hover on %r (%s): documentation part %r does not show the doc comments %r in order" % (tk.text, kind, rest[:160], docs), dict(sc, expected=sig)); continue
            part.see(("hover", kind, tk.role, bool(docs), b.is_ref if kind in ("param",) else None)); part.cnt("hover_declared")
        else:
            # predefined entity: kind and arity are prescribed by SPL; parameter names are not
            name = tk.text
            if b == "builtin:int":
                if "int" not in val: part.fail("hover on `int` shows %r" % val[:80], sc)
            else:
                n = len(gen.BUILTINS[name]); head = val.split("\n")[1] if "\n" in val else val
                refs = head.count("ref ")
                if not head.startswith("proc %s(" % name) or (head.count(":") != n) or refs != sum(gen.BUILTINS[name]):
                    part.fail("hover on predefined %r shows %r (expected %d int parameters, %d of them ref)" % (name, head, n, sum(gen.BUILTINS[name])), sc)
                else: part.see(("hover", "predefined", name))


def check_sighelp(part, sess, uri, P, text, T, rng, max_calls):
    b8 = text.encode()
    calls = P.calls if len(P.calls) <= max_calls else rng.sample(P.calls, max_calls)
    for call in calls:
        if call.lparen.idx is None or P.toks[call.lparen.idx] is not call.lparen: continue
        pts = [(call.lparen.end, 0, "after (")]
        for i, cm in enumerate(call.commas): pts.append((cm.end, i + 1, "after comma %d" % (i + 1)))
        pts.append((call.rparen.start, len(call.commas), "before )"))
        for i, a in enumerate(call.args):
            ft, lt = gen.first_tok(a), gen.last_tok(a)
            pts.append((rng.randint(ft.start, lt.end), i, "inside argument %d" % (i + 1))) if ft.start < lt.end else None
            # white space directly after an argument still belongs to it (no comma passed yet)
            pts.append((lt.end, i, "end of argument %d" % (i + 1)))
        callee = call.callee
        for off, idx, where in pts:
            while off < len(b8) and (b8[off] & 0xC0) == 0x80: off += 1
            l, c = T.pos(off)
            res = sess.result("textDocument/signatureHelp", tdp(uri, l, c)); part.ev()
            sc = {"kind": "signatureHelp", "text": text, "line": l, "character": c, "callee": call.name.name.text, "where": where}
            if not isinstance(res, dict) or "__error__" in res or len(res.get("signatures", [])) != 1:
                part.fail("signatureHelp %s of the call of %r at %d:%d answers %r" % (where, call.name.name.text, l, c, res), sc); continue
            sg = res["signatures"][0]
            if isinstance(callee, gen.Decl):
                params = [gen.show_var(p) for p in callee.params]; label = gen.show_proc(callee)
                nparams = len(params)
                if sg.get("label") != label or [p.get("label") for p in sg.get("parameters") or []] != params:
                    part.fail("signatureHelp for %r shows %r / %r, the declaration is %r" % (callee.name, sg.get("label"), sg.get("parameters"), label), dict(sc, expected=label)); continue
            else:
                nparams = len(gen.BUILTINS[callee.split(":")[1]])
                if len(sg.get("parameters") or []) != nparams:
                    part.fail("signatureHelp for predefined %r shows %d parameters, SPL defines %d" % (callee, len(sg.get("parameters") or []), nparams), sc); continue
            want = idx if nparams else None
            got = res.get("activeParameter")
            if got != want or (sg.get("activeParameter") is not None and sg.get("activeParameter") != want):
                part.fail("signatureHelp %s of the call of %r: activeParameter %r, %d comma(s) lie between `(` and the cursor" % (where, call.name.name.text, got, idx), dict(sc, expected=want)); continue
            part.see(("sighelp", "declared" if isinstance(callee, gen.Decl) else "predefined", where.split(" ")[0], min(idx, 3))); part.cnt("sighelp_ok")


def worker(args):
    seed, nprog, max_ids, open_ids = args
    rng = random.Random("C14/%s" % seed)
    part = Part(); sess = feat.Session()
    for it in range(nprog):
        P, text, T = feat.program(rng)
        try:
            uri = sess.open(text, "c14_", prefer=feat.type_decl_spans(P, text))
            check_hover(part, sess, uri, P, text, T, rng, max_ids, open_ids)
            check_sighelp(part, sess, uri, P, text, T, rng, max_ids // 2)
            sess.close(uri)
            if it == 0: part.sample({"part": "hover/signatureHelp", "text": text[:300], "calls": len(P.calls)}, 1)
        except (ServerDied, Timeout, FrameError) as e:
            feat.died(part, e, "hover/signatureHelp request", {"kind": "doc", "text": text}, sess)
    feat.report(part)
    sess.kill()
    return part


def run(ctx):
    server_bin("rel")
    nprog, mi = (160, 30) if ctx.quick else (1500, 100)
    open_ids = frozenset(f["id"] for f in ctx.open_findings())
    replay_witnesses(ctx)
    for p in pmap(worker, [("%s/%d" % (ctx.seed, i), nprog, mi, open_ids) for i in range(NCPU)]): ctx.merge(p)
    ctx.rule = ("well-typed generated programs; hover on every sampled identifier (signature = kind, name, ref marker, fully resolved type; doc comments in order; exact range); "
                "signatureHelp at every call: after `(`, after each comma, before `)`, inside and at the end of each argument, calls nested in blocks/branches/loops, predefined callees; "
                "distinct_nontrivial = distinct (request, binding kind / cursor place, role, ...) classes answered as expected")
    ctx.assumptions = ["signatures are rendered from the generator's ground truth; for predefined procedures only name, arity, ref markers and types are prescribed (not parameter names)"]
    ctx.floor("evaluations", ctx.evaluations, 4000)
    ctx.floor("signature help answers", ctx.extra.get("counters", {}).get("sighelp_ok", 0), 500)


def replay_witnesses(ctx):
    import json, os
    from ..core import VERIF
    sess = feat.Session()
    for f in ctx.open_findings():
        w = json.load(open(os.path.join(VERIF, f["witness"])))["scenario"]
        try:
            uri = sess.open(w["text"], "c14w_")
            res = sess.result("textDocument/hover", tdp(uri, w["line"], w["character"])); ctx.count(); sess.close(uri)
            val = (res or {}).get("contents", {}).get("value", "") if isinstance(res, dict) else ""
            if not val.startswith("```spl\n" + w["expected"] + "\n```"): ctx.known(f["id"], f["what"])
            else: ctx.extra.setdefault("witnesses_no_longer_failing", []).append(f["id"])
        except (ServerDied, Timeout, FrameError):
            ctx.known(f["id"], f["what"]); sess.kill()
    sess.kill()


def replay(ctx, sc):
    part = Part(); sess = feat.Session()
    try:
        uri = sess.open(sc["text"], "c14r_")
        m = "textDocument/hover" if sc["kind"] == "hover" else "textDocument/signatureHelp"
        res = sess.result(m, tdp(uri, sc["line"], sc["character"])); part.ev()
        if sc["kind"] == "hover" and "expected" in sc:
            val = (res or {}).get("contents", {}).get("value", "") if isinstance(res, dict) else ""
            if not val.startswith("```spl\n" + sc["expected"] + "\n```"): part.fail("hover shows %r, expected %r" % (val[:100], sc["expected"]), sc)
        elif sc["kind"] == "signatureHelp" and "expected" in sc:
            got = res.get("activeParameter") if isinstance(res, dict) else res
            lab = res["signatures"][0]["label"] if isinstance(res, dict) and res.get("signatures") else None
            if sc["expected"] not in (got, lab): part.fail("signatureHelp answers %r" % (res,), sc)
        elif not isinstance(res, dict): part.fail("%s answers %r" % (m, res), sc)
    except (ServerDied, Timeout, FrameError) as e:
        feat.died(part, e, "replay", sc, sess)
    sess.kill(); ctx.merge(part); ctx.see(1); ctx.see(2)
