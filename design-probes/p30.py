# C13 round trip on a given binary: rename -> apply -> same diagnostics, references consistent, rename back -> original
import os, sys, random, collections
from lsp import *
from splgen import *
from helpers import apply_edits
S = Server(); N = int(sys.argv[1]); stat = collections.Counter(); ex = {}
def note(k, i):
    stat[k] += 1; ex.setdefault(k, i)
for seed in range(N):
    g, text = generate(seed); tb = text.encode(); uri = "file:///r%d.spl" % seed
    S.open(uri, text); d0 = S.diags(uri)
    ids = [t for t in g.toks if t.kind == "id" and isinstance(t.bind, Decl)]
    for tk in random.Random(seed).sample(ids, min(6, len(ids))):
        l, c = pos_of(tb, tk.start)
        r = S.request("textDocument/rename", dict(tdp(uri, l, c), newName="zzFresh9")).get("result")
        if not r: note("BAD no rename", (seed, tk.text)); continue
        t2 = apply_edits(text, r["changes"][uri])
        uri2 = "file:///r%d_b.spl" % seed
        S.open(uri2, t2); d1 = S.diags(uri2)
        note(("ok " if [x["message"] for x in d1] == [x["message"] for x in d0] else "BAD ") + "diagnostics unchanged", (seed, tk.text, d1[:2]))
        # position of same occurrence in renamed text: count occurrences before
        n_before = sum(1 for t in ids if t.bind is tk.bind and t.start < tk.start)
        import re
        occ = [m.start() for m in re.finditer(r"\bzzFresh9\b", t2)]
        exp_n = sum(1 for t in ids if t.bind is tk.bind)
        note(("ok " if len(occ) == exp_n else "BAD ") + "occurrence count", (seed, tk.text, len(occ), exp_n))
        if len(occ) != exp_n: continue
        from lspmodel import position
        l2, c2 = position(t2, occ[n_before])
        r2 = S.request("textDocument/rename", dict(tdp(uri2, l2, c2), newName=tk.text)).get("result")
        t3 = apply_edits(t2, r2["changes"][uri2]) if r2 else None
        note(("ok " if t3 == text else "BAD ") + "rename back restores", (seed, tk.text))
for k in sorted(stat): print(stat[k], k, str(ex[k])[:300] if k.startswith("BAD") else "")
