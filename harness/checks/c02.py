"""C02 — the server never crashes or goes silent, whatever the document or request.
Monitors: (1) session monitor over the client-side event log: every request id gets exactly one response, in order, well-formed
JSON-RPC (result xor error), the process stays alive, no panic block on stderr; (2) shape validation of every result against
its LSP type, every range inside the document under the reference position model; (3) in process: panic-freedom of
AnalyzedSource::new / update / errors and tree well-formedness invariants on fresh analyses."""
import random, re, os
from ..core import Adaptor, Part, pmap, NCPU, server_bin, adaptor_bin, REPO
from ..client import Server, ServerDied, Timeout, FrameError, tdp, panic_signature
from .. import lspmodel, layout
from . import c02gen

POS_METHODS = ["textDocument/declaration", "textDocument/definition", "textDocument/implementation", "textDocument/typeDefinition", "textDocument/references",
               "textDocument/hover", "textDocument/rename", "textDocument/prepareRename", "textDocument/completion", "textDocument/signatureHelp"]
DOC_METHODS = ["textDocument/foldingRange", "textDocument/semanticTokens/full", "textDocument/formatting"]


def params_for(method, uri, pos, rng):
    if method in DOC_METHODS:
        p = {"textDocument": {"uri": uri}}
        if method.endswith("formatting"): p["options"] = {"tabSize": rng.choice([0, 2, 4, 8]), "insertSpaces": rng.random() < .7}
        return p
    p = {"textDocument": {"uri": uri}, "position": pos}
    if method.endswith("references"): p["context"] = {"includeDeclaration": rng.random() < .5}
    if method.endswith("/rename"): p["newName"] = rng.choice(["renamed", "x", "", "if", "ä"])
    return p


def positions(rng, text, n):
    """token starts, inside tokens, line ends, one past the line end, past the last line, huge values"""
    spans = lspmodel.line_spans(text)
    out = []
    import re, bisect
    idents = [m.start() for m in re.finditer(r"[A-Za-z_][A-Za-z_0-9]*", text)] if rng.random() < .5 else []
    starts = [sp[0] for sp in spans]
    for _ in range(n):
        c = rng.random()
        if idents and rng.random() < .4:
            # on an identifier (name resolution is where most position-dependent code lives), often one of the last of the document
            i = rng.choice(idents[-6:]) if rng.random() < .4 else rng.choice(idents)
            line = max(0, bisect.bisect_right(starts, i) - 1)
            out.append({"line": line, "character": sum(2 if ord(ch) > 0xFFFF else 1 for ch in text[starts[line]:i]) + rng.choice([0, 0, 1])}); continue
        line = rng.randrange(len(spans)); a, e, _x = spans[line]
        width = sum(2 if ord(ch) > 0xFFFF else 1 for ch in text[a:e])
        if c < .6: col = rng.randint(0, width)
        elif c < .7: col = width
        elif c < .8: col = width + 1
        elif c < .88: line = len(spans) + rng.choice([0, 1, 50]); col = rng.choice([0, 3])
        elif c < .94: col = rng.choice([2 ** 31 - 1, 2 ** 32 - 1, 100000])
        else: line = rng.choice([2 ** 31 - 1, 2 ** 32 - 1]); col = rng.choice([0, 2 ** 32 - 1])
        out.append({"line": line, "character": col})
    return out


# ------------------------------------------------------------------------------------------------ shape validation
def _rng_ok(r, text):
    return isinstance(r, dict) and isinstance(r.get("start"), dict) and isinstance(r.get("end"), dict) and lspmodel.range_inside_document(r, text)


def shape_problem(method, res, text, uri):
    """None if the result has the shape of its LSP type and all its ranges lie inside the document"""
    if res is None: return None
    m = method.split("/")[-1]
    if m in ("declaration", "definition", "implementation", "typeDefinition"):
        if not isinstance(res, dict) or res.get("uri") != uri or not _rng_ok(res.get("range"), text): return "not a Location inside the document: %r" % (res,)
    elif m == "references":
        if not isinstance(res, list) or any(not isinstance(x, dict) or x.get("uri") != uri or not _rng_ok(x.get("range"), text) for x in res): return "not a list of Locations inside the document: %r" % (str(res)[:200],)
    elif m == "hover":
        if not isinstance(res, dict) or "contents" not in res or (res.get("range") is not None and not _rng_ok(res["range"], text)): return "not a Hover with a range inside the document: %r" % (str(res)[:200],)
    elif m == "prepareRename":
        if not _rng_ok(res, text): return "not a Range inside the document: %r" % (res,)
    elif m == "rename":
        if not isinstance(res, dict): return "not a WorkspaceEdit: %r" % (str(res)[:200],)
        for u, eds in (res.get("changes") or {}).items():
            if u != uri or not isinstance(eds, list) or any(not _rng_ok(e.get("range"), text) or not isinstance(e.get("newText"), str) for e in eds): return "WorkspaceEdit with an edit outside the document: %r" % (str(res)[:200],)
    elif m == "completion":
        items = res if isinstance(res, list) else res.get("items") if isinstance(res, dict) else None
        if items is None or any(not isinstance(i, dict) or not isinstance(i.get("label"), str) for i in items): return "not a completion list: %r" % (str(res)[:200],)
    elif m == "signatureHelp":
        if not isinstance(res, dict) or not isinstance(res.get("signatures"), list): return "not a SignatureHelp: %r" % (str(res)[:200],)
        ap = res.get("activeParameter")
        for s in res["signatures"]:
            n = len(s.get("parameters") or [])
    elif m == "foldingRange":
        n = len(lspmodel.line_spans(text))
        if not isinstance(res, list) or any(not isinstance(x.get("startLine"), int) or not isinstance(x.get("endLine"), int) or not (0 <= x["startLine"] <= x["endLine"] < n) for x in res): return "folding range outside the document: %r" % (str(res)[:200],)
    elif m == "full":
        d = res.get("data") if isinstance(res, dict) else None
        if not isinstance(d, list) or len(d) % 5 or any((not isinstance(x, int)) or x < 0 or x > 0xFFFFFFFF for x in d): return "semantic tokens data malformed: %r" % (str(res)[:200],)
    elif m == "formatting":
        if not isinstance(res, list) or any(not isinstance(e, dict) or not _rng_ok(e.get("range"), text) or not isinstance(e.get("newText"), str) for e in res): return "not a list of TextEdits inside the document: %r" % (str(res)[:200],)
    return None


def source_line(location):
    """trimmed text of the panicking source line, read from /repo at run time (stable under unrelated line shifts)"""
    m = re.match(r"(.*):(\d+)(?::\d+)?$", location or "")
    if not m: return ""
    path = m.group(1)
    for base in (REPO, os.path.join(REPO, "lsp4spl"), os.path.join(REPO, "spl_frontend")):
        p = os.path.join(base, path)
        if os.path.exists(p):
            try: return open(p).read().split("\n")[int(m.group(2)) - 1].strip()
            except Exception: return ""
    return ""


def crash_key(sig):
    msg = re.sub(r"\d+", "N", sig[0] or "")
    return msg, source_line(sig[1])


def match_known(known, method, sig):
    msg, line = crash_key(sig)
    for f in known:
        if f.get("message") == msg and f.get("source_line") == line and (f.get("method") in (None, method)): return f
    return None


# ------------------------------------------------------------------------------------------------ LSP sessions
def session(part, rng, srv_holder, variant, known, nreq):
    text = c02gen.hostile_text(rng)
    uri = "file:///c02/%d.spl" % rng.getrandbits(30)
    log = {"text": text, "uri": uri, "changes": []}
    srv = srv_holder[0]
    if srv is None or not srv.alive():
        srv = srv_holder[0] = Server(server_bin(variant), env={"RUST_BACKTRACE": "0", "ASAN_OPTIONS": "halt_on_error=1:abort_on_error=0:detect_leaks=1:exitcode=77"})
    pending = []
    def flush():
        """read the responses of all pending requests: exactly one each, in request order, well-formed"""
        nonlocal pending
        for rid, method, params, cur in pending:
            m = srv.wait_response(rid, 30)           # raises on a response with another id (out of order / duplicate / unknown)
            part.ev()
            if m.get("jsonrpc") != "2.0" or (("result" in m) == ("error" in m)):
                part.fail("%s: response is not well-formed JSON-RPC 2.0 (result xor error): %r" % (method, str(m)[:200]), dict(log, method=method, params=params)); continue
            if "error" in m:
                part.fail("%s answers a well-formed request with an error: %r" % (method, m["error"]), dict(log, method=method, params=params)); continue
            sp = shape_problem(method, m["result"], cur, uri)
            if sp: part.fail("%s: %s" % (method, sp), dict(log, method=method, params=params))
            else: part.see((method.split("/")[-1], m["result"] is None)); part.add("methods", method.split("/")[-1])
        pending = []
    cur = text
    try:
        srv.open(uri, text)
        rounds = 1 + rng.randint(1, 5)
        for rnd in range(rounds):
            if rnd > 0:
                batch = []
                for _b in range(rng.choice([1, 1, 2, 3])):     # several changes in one notification, each relative to its predecessor
                    ch, new = c02gen.random_lsp_change(rng, cur)
                    if rng.random() < .1: ch = {"text": c02gen.hostile_text(rng)}; new = ch["text"]
                    batch.append(ch); cur = new
                log["changes"].append(batch); srv.change(uri, batch)
                if rng.random() < .12:
                    # change storm: more consecutive notifications than the server's internal queues hold (32), nothing read meanwhile
                    for _s in range(rng.choice([33, 40, 70, 130])):
                        ch, cur = c02gen.random_lsp_change(rng, cur)
                        log["changes"].append([ch]); srv.change(uri, [ch])
                    part.cnt("change_storms")
            for pos in positions(rng, cur, max(1, nreq // rounds // 4)):
                for method in rng.sample(POS_METHODS, rng.choice([2, 4, 10])):
                    p = params_for(method, uri, pos, rng); pending.append((srv.post(method, p), method, p, cur))
            for method in DOC_METHODS:
                p = params_for(method, uri, None, rng); pending.append((srv.post(method, p), method, p, cur))
            flush()
        # the server's copy must still be the client's (a silently dropped or misapplied change is "going silent" on the document)
        got = srv.text_of(uri)
        if got != cur: part.cnt("text_mismatch_after_hostile_edits")   # reported by C08; counted here only
        if rng.random() < .08:
            # the last requests, shutdown and exit written in one piece: every request is still answered before the process ends
            from ..client import frame
            blob = b""; ids = []
            for method in rng.sample(DOC_METHODS + POS_METHODS, rng.randint(2, 8)):
                srv.id += 1; ids.append((srv.id, method))
                blob += frame({"jsonrpc": "2.0", "id": srv.id, "method": method, "params": params_for(method, uri, {"line": 0, "character": 0}, rng)})
            srv.id += 1; ids.append((srv.id, "shutdown")); blob += frame({"jsonrpc": "2.0", "id": srv.id, "method": "shutdown"}) + frame({"jsonrpc": "2.0", "method": "exit"})
            srv.send_raw(blob)
            try:
                for rid, method in ids:
                    m = srv.wait_response(rid, 30); part.ev()
                    if "error" in m: part.fail("%s (pipelined in front of shutdown + exit) is answered with an error %r" % (method, m["error"]), dict(log, method=method)); break
            except ServerDied as e:
                part.fail("requests, shutdown and exit written in one piece: the process ended (status %s) before request %d (%s) was answered" % (e.status, rid, method), dict(log, method=method, goodbye=[m for _, m in ids]))
            part.cnt("pipelined_goodbyes")
            srv.kill(); srv_holder[0] = None
        else:
            srv.close_doc(uri)
        part.cnt("sessions_completed")
    except ServerDied as e:
        sig = panic_signature(e.stderr)
        first = pending[0] if pending else None
        method = first[1] if first else ("didChange" if log["changes"] else "didOpen")
        # which request was being processed: the first one without a response
        answered = set(ev.get("id") for ev in srv.log if ev["dir"] == "s2c" and ev["kind"] == "response")
        for rid, m_, p_, _c in pending:
            if rid not in answered: method = m_; first = (rid, m_, p_, _c); break
        k = match_known(known, method, sig)
        part.cnt("server_deaths")
        if k: part.known(k["id"], k["what"])
        else: part.fail("server died (exit status %s) while handling %s: %s [source line: %s]" % (e.status, method, sig, crash_key(sig)[1]),
                        dict(log, method=method, params=first[2] if first else None, crash_key=list(crash_key(sig))))
        srv_holder[0] = None
    except Timeout:
        part.fail("server went silent: no response within 30 s while the pipe is open (pending %d requests)" % len(pending), dict(log, method=pending[0][1] if pending else None))
        srv.kill(); srv_holder[0] = None
    except FrameError as e:
        part.fail("response stream violated: %s" % e, dict(log, method=pending[0][1] if pending else None))
        srv.kill(); srv_holder[0] = None


def worker_lsp(args):
    seed, nsess, nreq, variant, known = args
    rng = random.Random("C02/lsp/%s" % seed)
    part = Part(); holder = [None]
    for _ in range(nsess):
        session(part, rng, holder, variant, known, nreq)
    if holder[0] is not None:
        st = holder[0].close()
        if st != 0: part.fail("orderly shutdown after hostile sessions ended with status %r" % (st,), {"kind": "shutdown"})
    return part


# ------------------------------------------------------------------------------------------------ in process
def worker_lib(args):
    seed, n, known = args
    rng = random.Random("C02/lib/%s" % seed)
    part = Part(); ad = Adaptor()
    for _ in range(n):
        text = c02gen.hostile_text(rng)
        res = ad.call(op="analyze", text=text, inv=True)
        part.ev()
        sc = {"kind": "analyze", "text": text}
        if "adaptor_died" in res: part.fail("analysis killed the process (status %s): stack overflow / abort" % res["adaptor_died"], sc); continue
        if "panic" in res:
            k = match_known(known, "analyze", (res["panic"]["message"], res["panic"]["location"]))
            if k: part.known(k["id"], k["what"])
            else: part.fail("AnalyzedSource::new panicked: %r" % (res["panic"],), sc)
            continue
        if res.get("errors_panic"): part.fail("errors() panicked on a fresh analysis: %r" % (res["errors_panic"],), sc); continue
        if res.get("invariants"): part.fail("tree invariants violated on a fresh analysis: %r" % (res["invariants"][:3],), sc); continue
        part.cnt("fresh_analyses_ok")
        # update: panic-freedom (equality with a fresh analysis is C01's subject, not judged here)
        t = text; steps = []
        for _k in range(rng.randint(1, 4)):
            b = t.encode(); cps = [0]
            for ch in t: cps.append(cps[-1] + len(ch.encode()))
            i = rng.randrange(len(cps)); j = min(len(cps) - 1, i + rng.choice([0, 0, 1, 2, 8]))
            chg = [cps[i], cps[j], c02gen.soup(rng, rng.choice([0, 1, 1, 2]))]
            steps.append([chg]); t = (b[:chg[0]] + chg[2].encode() + b[chg[1]:]).decode()
        r = ad.call(op="history", text=text, steps=steps, inv=False)
        part.ev(len(steps))
        sc = {"kind": "history", "text": text, "steps": steps}
        if "adaptor_died" in r: part.fail("update killed the process (status %s)" % r["adaptor_died"], sc)
        elif r.get("update_panic") or r.get("fresh_panic"):
            p = r.get("update_panic") or r.get("fresh_panic")
            k = match_known(known, "update", (p["message"], p["location"]))
            if k: part.known(k["id"], k["what"])
            else: part.fail("AnalyzedSource::%s panicked at step %s: %r [source line: %s]" % ("update" if r.get("update_panic") else "new", r.get("step"), p, crash_key((p["message"], p["location"]))[1]),
                            dict(sc, crash_key=list(crash_key((p["message"], p["location"])))))
        elif r.get("div") and "errors-panic" in r["div"]["what"]:
            part.fail("errors() panicked after update: %r" % (r["div"]["detail"].get("errors_panic"),), sc)
        else:
            part.cnt("update_histories_ok")
            if r.get("div"): part.cnt("update_diverged_from_fresh(reported by C01 witnesses, not judged here)")
    ad.close()
    return part


def run(ctx):
    server_bin("rel"); adaptor_bin()
    known = [f for f in ctx.open_findings() if f.get("kind") == "crash"]
    ns, nreq = (14, 160) if ctx.quick else (700, 180)
    variants = ["rel"] if ctx.quick else ["rel", "chk", "asan"]
    for v in variants:
        server_bin(v)
        n_v = ns if v != "asan" else max(10, ns // 5)
        before = ctx.evaluations
        for p in pmap(worker_lsp, [("%s/%s/%d" % (ctx.seed, v, i), n_v, nreq, v, known) for i in range(NCPU)]): ctx.merge(p)
        ctx.extra.setdefault("requests_per_build", {})[v] = ctx.evaluations - before
    if "asan" in variants: ctx.extra["sanitizer"] = "AddressSanitizer+LeakSanitizer build (nightly -Zsanitizer=address): a report aborts the server (exit 77) and is a violation; reports seen = the violations naming AddressSanitizer (0 if none)"
    nl = 1200 if ctx.quick else 60000
    for p in pmap(worker_lib, [("%s/%d" % (ctx.seed, i), nl, known) for i in range(NCPU)]): ctx.merge(p)
    ctx.extra["server_builds"] = variants
    ctx.rule = ("hostile documents (token soup over all lexeme kinds incl. unterminated literals/comments, overflowing literals, CR/LF mixes, 1-4-byte characters, NUL; mutated valid programs; nesting up to 40), "
                "1-5 hostile edits per document (overshooting positions, full-text replacements), all 13 request methods pipelined at token starts, inside tokens, line ends, past the line, past the last "
                "line and at huge positions; in process: AnalyzedSource::new + invariants + errors(), then update histories; distinct_nontrivial = distinct (method, answer is null) pairs")
    ctx.assumptions = ["crash findings are keyed on (method, panic message with numerals stripped, text of the panicking source line)"]
    ctx.floor("evaluations", ctx.evaluations, 20000)
    ctx.floor("request methods exercised", len(ctx.extra.get("_sets", {}).get("methods", ())), 13)
    ctx.floor("sessions completed", ctx.extra.get("counters", {}).get("sessions_completed", 0), 100)


def replay(ctx, sc):
    part = Part()
    if sc.get("kind") in ("analyze", "history"):
        ad = Adaptor()
        if sc["kind"] == "analyze":
            r = ad.call(op="analyze", text=sc["text"], inv=True); part.ev()
            if "panic" in r or r.get("invariants") or r.get("errors_panic") or "adaptor_died" in r: part.fail("analysis fails: %r" % (str(r)[:300],), sc)
        else:
            r = ad.call(op="history", text=sc["text"], steps=sc["steps"], inv=False); part.ev()
            if r.get("update_panic") or r.get("fresh_panic") or "adaptor_died" in r: part.fail("history panics: %r" % (str(r)[:300],), sc)
    else:
        srv = Server(server_bin("rel"))
        try:
            srv.open(sc["uri"], sc["text"]); cur = sc["text"]
            for batch in sc.get("changes", []): srv.change(sc["uri"], batch); cur = lspmodel.apply_changes(cur, batch)
            if sc.get("method") and sc.get("params"):
                m = srv.request(sc["method"], sc["params"]); part.ev()
                if "error" in m: part.fail("error response %r" % (m["error"],), sc)
                else:
                    sp = shape_problem(sc["method"], m.get("result"), cur, sc["uri"])
                    if sp: part.fail(sp, sc)
            srv.sync(); part.ev()
        except (ServerDied, Timeout, FrameError) as e:
            part.fail("server failed: %s" % e, sc)
        srv.kill()
    ctx.merge(part); ctx.see(1); ctx.see(2)
