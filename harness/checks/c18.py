"""C18 — JSON-RPC/LSP lifecycle conformance and clean termination.
Oracle: an executable model of the lifecycle phases (pre -> gap -> main -> shutdown) giving, per client message, the expected
response class and the exit status.  Workload: all message sequences up to a length bound over an 8-letter alphabet, in two
schedules (lock-step, pipelined), closed by end-of-input when they contain no `exit`; every byte prefix of sampled sessions
followed by end-of-input (fault enumeration); shutdown+exit with stdin left open.  Hang verdict = bounded wait + observation
that the process is quiescent (all threads sleeping, no CPU time consumed) although its input is at EOF."""
LEVEL = "fault_enumeration"
import itertools, json, os, random, select, subprocess, time
from ..core import Part, pmap, NCPU, server_bin
from ..client import FrameParser, FrameError, frame

URI = "file:///c18/x.spl"
ALPHA = ["initialize", "initialized", "request", "unknown_req", "doc_note", "unknown_note", "shutdown", "exit"]
REQ = {"initialize", "request", "unknown_req", "shutdown"}
OK = "ok"


SUPPORTED = ["textDocument/foldingRange", "textDocument/formatting", "textDocument/semanticTokens/full", "textDocument/hover", "textDocument/completion", "textDocument/definition",
             "textDocument/references", "textDocument/rename", "textDocument/prepareRename", "textDocument/signatureHelp", "textDocument/declaration", "textDocument/typeDefinition", "textDocument/implementation"]


def supported_request(i, which=None):
    m = SUPPORTED[(i if which is None else which) % len(SUPPORTED)]
    p = {"textDocument": {"uri": URI}}
    if m.endswith("formatting"): p["options"] = {"tabSize": 4, "insertSpaces": True}
    elif not m.endswith(("foldingRange", "full")): p["position"] = {"line": 0, "character": 6}
    if m.endswith("references"): p["context"] = {"includeDeclaration": True}
    if m.endswith("/rename"): p["newName"] = "renamed"
    return {"jsonrpc": "2.0", "id": i, "method": m, "params": p}


def msg(kind, i, variant=0):
    if kind == "request": return supported_request(i, i + variant)
    if kind == "initialize": return {"jsonrpc": "2.0", "id": i, "method": "initialize", "params": {"capabilities": {}}}
    if kind == "initialized": return {"jsonrpc": "2.0", "method": "initialized", "params": {}}
    if kind == "unknown_req": return {"jsonrpc": "2.0", "id": i, "method": "foo/bar", "params": {}}
    if kind == "doc_note": return {"jsonrpc": "2.0", "method": "textDocument/didOpen", "params": {"textDocument": {"uri": URI, "languageId": "spl", "version": 0, "text": "proc main() {}\n"}}}
    if kind == "unknown_note": return {"jsonrpc": "2.0", "method": "foo/note", "params": {}}
    if kind == "shutdown": return {"jsonrpc": "2.0", "id": i, "method": "shutdown"}
    if kind == "exit": return {"jsonrpc": "2.0", "method": "exit"}
    raise ValueError(kind)


def model(seq):
    """-> (expected responses [(id, set of acceptable classes)], exit status or None if the session ends by end-of-input, index of the exit message)"""
    phase = "pre"; out = []; rc = None; at = None
    for i, k in enumerate(seq, 1):
        if phase == "pre":
            if k == "initialize": out.append((i, {OK})); phase = "gap"
            elif k in REQ: out.append((i, {-32002}))
            elif k == "exit": rc = 1; at = i; break
        elif phase == "gap":
            # between the initialize result and `initialized` clients must not send requests; the property does not pin this gap down
            if k in REQ: out.append((i, {-32002, -32600} if k == "initialize" else {-32002}))
            elif k == "initialized": phase = "main"
            elif k == "exit": rc = 1; at = i; break
        elif phase == "main":
            if k == "initialize": out.append((i, {-32600}))
            elif k == "request": out.append((i, {OK}))
            elif k == "unknown_req": out.append((i, {-32601}))
            elif k == "shutdown": out.append((i, {OK})); phase = "shut"
            elif k == "exit": rc = 1; at = i; break
        elif phase == "shut":
            if k in REQ: out.append((i, {-32600}))
            elif k == "exit": rc = 0; at = i; break
    return out, rc, at


def proc_quiescent(pid):
    """all threads sleeping and no CPU time consumed over one second"""
    def sample():
        tot = 0; states = []
        for t in os.listdir("/proc/%d/task" % pid):
            f = open("/proc/%d/task/%s/stat" % (pid, t)).read().rsplit(")", 1)[1].split()
            states.append(f[0]); tot += int(f[11]) + int(f[12])
        return states, tot
    try:
        s1, t1 = sample(); time.sleep(1.0); s2, t2 = sample()
    except Exception:
        return None
    return all(s in ("S", "I") for s in s1 + s2) and t1 == t2


class Run:
    """one server process driven with raw bytes"""
    def __init__(s, binpath, env=None):
        e = dict(os.environ); e.update(env or {})
        s.p = subprocess.Popen([binpath], stdin=subprocess.PIPE, stdout=subprocess.PIPE, stderr=subprocess.DEVNULL, bufsize=0, env=e)
        s.parser = FrameParser(); s.msgs = []; s.torn = None; s.eof = False

    def write(s, b):
        try: os.write(s.p.stdin.fileno(), b); return True
        except (BrokenPipeError, OSError): return False

    def pump(s, timeout):
        r, _, _ = select.select([s.p.stdout], [], [], timeout)
        if not r: return None
        d = os.read(s.p.stdout.fileno(), 1 << 16)
        if not d: s.eof = True; return False
        s.parser.feed(d)
        try:
            while True:
                m = s.parser.next()
                if m is None: break
                s.msgs.append(m)
        except FrameError as e:
            s.torn = str(e)
        return True

    def wait_response(s, rid, timeout=10):
        dl = time.monotonic() + timeout
        while True:
            if any("id" in m and "method" not in m and m["id"] == rid for m in s.msgs): return True
            rem = dl - time.monotonic()
            if rem <= 0 or s.eof or s.torn: return False
            s.pump(rem)

    def finish(s, close_stdin=True, limit=10.0):
        """-> ("exit", status) | ("hang", detail) | ("busy", detail)"""
        if close_stdin:
            try: s.p.stdin.close()
            except Exception: pass
        dl = time.monotonic() + limit
        while time.monotonic() < dl:
            if not s.eof: s.pump(0.05)
            st = s.p.poll()
            if st is not None:
                while not s.eof and s.pump(0.2) is not None: pass
                return ("exit", st)
            if s.eof: time.sleep(0.005)
        q = proc_quiescent(s.p.pid)
        st = s.p.poll()
        if st is not None: return ("exit", st)
        s.p.kill(); s.p.wait()
        return ("hang", "process still alive %.0f s after its input ended; all threads sleeping, no CPU time consumed" % limit) if q else ("busy", "process still running after %.0f s (consuming CPU or state unknown)" % limit)

    def kill(s):
        try: s.p.kill(); s.p.wait()
        except Exception: pass
        for f in (s.p.stdin, s.p.stdout):
            try: f.close()
            except Exception: pass


def responses(msgs):
    out = []
    for m in msgs:
        if "id" in m and "method" not in m: out.append((m.get("id"), m["error"].get("code") if "error" in m else OK, ("result" in m) != ("error" in m) and m.get("jsonrpc") == "2.0"))
    return out


def check_session(part, binpath, seq, schedule, open_ids, variant=0, env=None):
    exp, erc, at = model(seq)
    data = [frame(msg(k, i, variant)) for i, k in enumerate(seq[:at] if at else seq, 1)]
    r = Run(binpath, env)
    sc = {"kind": "sequence", "sequence": list(seq), "schedule": schedule, "variant": variant, "env": env}
    what = "%s %s" % (schedule, "[" + ", ".join(seq) + "]")
    try:
        if schedule == "pipelined":
            r.write(b"".join(data))
        else:
            for i, (k, b) in enumerate(zip(seq, data), 1):
                if not r.write(b): break
                if k in REQ and not r.wait_response(i):
                    part.fail("%s: request %d (%s) got no response within 10 s" % (what, i, k), sc); r.kill(); return
        res = r.finish(close_stdin=True)
        part.ev()
        if res[0] == "hang": part.fail("%s: %s" % (what, res[1]), sc); return
        if res[0] == "busy": part["inconclusive"].append("%s: %s" % (what, res[1])); return
        rc = res[1]
        got = responses(r.msgs)
        others = [m for m in r.msgs if not ("id" in m and "method" not in m)]
        if others: part.fail("%s: unexpected server-to-client message %r (client announced no capabilities)" % (what, str(others[0])[:150]), sc); return
        if any(not g[2] for g in got): part.fail("%s: a response is not well-formed JSON-RPC" % what, sc); return
        exit1_pipelined = schedule == "pipelined" and erc == 1
        if exit1_pipelined and "K-C18-1" in open_ids:
            # known finding K-C18-1: `exit` outside the shutdown phase calls process::exit(1) while responses are still queued: the tail is lost / torn.
            ok = len(got) <= len(exp) and all(g[0] == e[0] and g[1] in e[1] for g, e in zip(got, exp))
            if ok and (len(got) < len(exp) or r.torn): part.known("K-C18-1", "responses queued when `exit` arrives outside the shutdown phase are dropped or torn"); part.add("known_classes_seen", "pipelined/exit-outside-shutdown")
        else:
            ok = r.torn is None and len(got) == len(exp) and all(g[0] == e[0] and g[1] in e[1] for g, e in zip(got, exp))
        if not ok:
            part.fail("%s: responses %r%s, lifecycle model expects %r" % (what, [(g[0], g[1]) for g in got], " + torn frame (%s)" % r.torn if r.torn else "", [(i, sorted(map(str, c))) for i, c in exp]), sc); return
        if erc is None:
            if rc not in (0, 1): part.fail("%s: ended by end-of-input with status %r (not a clean termination)" % (what, rc), sc); return
        elif rc != erc:
            part.fail("%s: exit status %r, expected %r" % (what, rc, erc), sc); return
        part.see((schedule, tuple(sorted(set(seq))), erc)); part.cnt("sessions_" + schedule)
    finally:
        r.kill()


def worker_seqs(args):
    shard, nshards, maxlen, schedules, sample, seed, open_ids = args
    binpath = server_bin("rel"); part = Part()
    rng = random.Random("C18/%s/%d" % (seed, shard))
    k = 0
    for n in range(0, maxlen + 1):
        for seq in itertools.product(ALPHA, repeat=n):
            k += 1
            if k % nshards != shard: continue
            if sample is not None and n > sample[0] and rng.random() > sample[1]: continue
            for sch in schedules: check_session(part, binpath, seq, sch, open_ids, variant=rng.randrange(13))
    # random long sequences
    for _ in range(args[4][2] if sample else 30):
        n = rng.randint(5, 40)
        seq = tuple(rng.choice(ALPHA[:7] if rng.random() < .8 else ALPHA) for _ in range(n))
        check_session(part, binpath, seq, rng.choice(schedules), open_ids)
    return part


def worker_bursts(args):
    """pipelined bursts of every size 1..N behind a slowed-down responder (hook H3): every request is answered, in order, and nothing is lost at shutdown"""
    shard, nshards, maxn, seed = args
    binpath = server_bin("rel"); part = Part()
    rng = random.Random("C18/burst/%s/%d" % (seed, shard))
    for n in range(1, maxn + 1):
        if n % nshards != shard: continue
        # the burst in the main phase, behind shutdown (every request rejected with InvalidRequest), or in front of initialize (ServerNotInitialized)
        where = rng.choice(["main", "main", "after-shutdown", "before-initialize"])
        seq = {"main": ("initialize", "initialized", "doc_note") + ("request",) * n + ("shutdown", "exit"),
               "after-shutdown": ("initialize", "initialized", "shutdown") + ("request",) * n + ("exit",),
               "before-initialize": ("request",) * n + ("initialize", "initialized", "request", "shutdown", "exit")}[where]
        for delay in (None, "300", "2000", "10000"):
            env = {"VERIF_DELAY_RESPONDER_US": delay} if delay else None
            before = len(part["failures"])
            check_session(part, binpath, seq, "pipelined", set(), variant=rng.randrange(13), env=env)
            if len(part["failures"]) == before: part.cnt("burst_sessions_ok")
    return part


SESSIONS = [("initialize", "initialized", "doc_note", "request", "unknown_req", "request", "shutdown", "exit"),
            ("initialize", "initialized", "request", "doc_note", "request"),
            ("request", "initialize", "initialize", "initialized", "unknown_note", "request", "shutdown", "request", "exit"),
            ("initialize", "initialized", "doc_note", "request", "exit")]


def worker_prefix(args):
    """fault enumeration: every byte prefix of a session followed by end-of-input"""
    si, shard, nshards, open_ids = args
    binpath = server_bin("rel"); part = Part()
    seq = SESSIONS[si]
    frames = [frame(msg(k, i)) for i, k in enumerate(seq, 1)]
    data = b"".join(frames)
    bounds = list(itertools.accumulate(len(f) for f in frames))
    for cut in range(0, len(data) + 1):
        if cut % nshards != shard: continue
        complete = sum(1 for b in bounds if b <= cut)
        exp, erc, at = model(seq[:complete])
        r = Run(binpath)
        sc = {"kind": "prefix", "session": list(seq), "cut": cut}
        try:
            r.write(data[:cut])
            res = r.finish(close_stdin=True); part.ev()
            if res[0] == "hang": part.fail("session %d cut after %d bytes: %s" % (si, cut, res[1]), sc); continue
            if res[0] == "busy": part["inconclusive"].append("prefix %d/%d: %s" % (si, cut, res[1])); continue
            got = responses(r.msgs)
            if erc == 1 and "K-C18-1" in open_ids:
                ok = len(got) <= len(exp) and all(g[0] == e[0] and g[1] in e[1] for g, e in zip(got, exp))   # K-C18-1 territory (single write, exit outside shutdown)
            else:
                ok = r.torn is None and len(got) == len(exp) and all(g[0] == e[0] and g[1] in e[1] for g, e in zip(got, exp))
            if not ok: part.fail("session %d cut after %d bytes (%d complete messages): responses %r, expected %r" % (si, cut, complete, [(g[0], g[1]) for g in got], [(i, sorted(map(str, c))) for i, c in exp]), sc); continue
            rc = res[1]
            if (erc is None and rc not in (0, 1)) or (erc is not None and rc != erc):
                part.fail("session %d cut after %d bytes: exit status %r (expected %s)" % (si, cut, rc, erc if erc is not None else "0 or 1"), sc); continue
            inside = "frame-boundary" if cut in bounds or cut == 0 else "header" if any(b0 <= cut < b0 + f.index(b"\r\n\r\n") + 4 for b0, f in zip([0] + bounds[:-1], frames)) else "body"
            part.see(("prefix", si, inside, complete)); part.cnt("prefixes_" + inside)
        finally:
            r.kill()
    return part


def stdin_open_exit(part, binpath, open_ids):
    """shutdown + exit while the client keeps its end of the pipe open: the process must end with 0 without waiting for more input"""
    for seq in (("initialize", "initialized", "shutdown", "exit"), ("initialize", "initialized", "doc_note", "request", "shutdown", "exit"), ("initialize", "exit"), ("exit",)):
        exp, erc, at = model(seq)
        r = Run(binpath)
        try:
            for i, k in enumerate(seq, 1):
                r.write(frame(msg(k, i)))
                if k in REQ: r.wait_response(i)
            res = r.finish(close_stdin=False, limit=10.0); part.ev()
            sc = {"kind": "stdin-open", "sequence": list(seq)}
            if res[0] != "exit": part.fail("after %r with stdin left open: %s" % (seq, res[1]), sc)
            elif res[1] != erc: part.fail("after %r with stdin left open: exit status %r, expected %r" % (seq, res[1], erc), sc)
            else: part.see(("stdin-open", seq))
        finally:
            r.kill()


def stalled_reader(part, binpath, rng, nruns):
    """a client that pipelines requests with large answers (more than the 64 KiB a pipe holds), ends the session, and only then -
    after a pause - starts to read: every request must still be answered, in order, before the process ends"""
    filler = "".join("proc filler%d(a: int, ref b: int) {\n    var c: int;\n    c := a * %d + b;\n    if (c < a) { b := c; } else { b := a; }\n}\n" % (j, j) for j in range(400)) + "proc main() {}\n"
    for it in range(nruns):
        end = rng.choice(["exit", "shutdown+exit", "eof", "shutdown+eof"]); stall = rng.choice([0.2, 1.3, 2.5]); nreq = rng.choice([3, 8, 20])
        msgs = [msg("initialize", 1), msg("initialized", 2), {"jsonrpc": "2.0", "method": "textDocument/didOpen", "params": {"textDocument": {"uri": URI, "languageId": "spl", "version": 0, "text": filler}}}]
        ids = [1]
        for i in range(nreq):
            rid = 10 + i; ids.append(rid)
            m = rng.choice(["textDocument/semanticTokens/full", "textDocument/semanticTokens/full", "textDocument/foldingRange", "textDocument/formatting"])
            p = {"textDocument": {"uri": URI}}
            if m.endswith("formatting"): p["options"] = {"tabSize": 8, "insertSpaces": True}
            msgs.append({"jsonrpc": "2.0", "id": rid, "method": m, "params": p})
        if end.startswith("shutdown"): msgs.append({"jsonrpc": "2.0", "id": 99, "method": "shutdown"}); ids.append(99)
        if end.endswith("exit"): msgs.append({"jsonrpc": "2.0", "method": "exit"})
        erc = 1 if end == "exit" else 0 if end == "shutdown+exit" else None
        sc = {"kind": "stalled-reader", "end": end, "stall": stall, "requests": nreq}
        r = Run(binpath)
        try:
            os.set_blocking(r.p.stdin.fileno(), False)
            data = b"".join(frame(m) for m in msgs); view = memoryview(data); t0 = time.monotonic()
            while view and time.monotonic() - t0 < 30:
                try: view = view[os.write(r.p.stdin.fileno(), view):]
                except BlockingIOError: time.sleep(0.01)          # the server stopped reading because nobody reads its output: wait, do not read
                except (BrokenPipeError, OSError): break
                if stall and time.monotonic() - t0 > stall: break  # (the rest is written while reading, below)
            time.sleep(max(0.0, stall - (time.monotonic() - t0)))
            t1 = time.monotonic()
            while view and time.monotonic() - t1 < 60:
                try: view = view[os.write(r.p.stdin.fileno(), view):]
                except BlockingIOError: r.pump(0.01)
                except (BrokenPipeError, OSError): break
            os.set_blocking(r.p.stdin.fileno(), True)
            res = r.finish(close_stdin=True, limit=30.0); part.ev()
            got = [g[0] for g in responses(r.msgs)]
            if res[0] == "busy": part["inconclusive"].append("stalled reader: %s" % res[1]); continue
            if res[0] == "hang": part.fail("stalled reader (%s, reading starts after %.1f s): %s" % (end, stall, res[1]), sc); continue
            if got != ids or r.torn:
                part.fail("a client that starts reading %.1f s after pipelining %d requests with large answers and %s gets responses %r%s, expected one per request in order %r"
                          % (stall, nreq, end, got, " + torn frame" if r.torn else "", ids), sc); continue
            if (erc is not None and res[1] != erc) or (erc is None and res[1] not in (0, 1)): part.fail("stalled reader (%s): exit status %r" % (end, res[1]), sc); continue
            part.see(("stalled-reader", end, stall > 1, nreq)); part.cnt("stalled_reader_runs")
        finally:
            r.kill()


def worker_stalled(args):
    seed, n = args
    part = Part(); stalled_reader(part, server_bin("rel"), random.Random("C18/stalled/%s" % seed), n)
    return part


def run(ctx):
    binpath = server_bin("rel")
    open_ids = set(f["id"] for f in ctx.open_findings())
    # witness of K-C18-1 first
    if "K-C18-1" in open_ids:
        seen = 0
        for _ in range(20):
            r = Run(binpath); r.write(frame(msg("initialize", 1)) + frame(msg("request", 2)) + frame(msg("exit", 3))); r.finish(); n = len(responses(r.msgs)); r.kill(); ctx.count()
            if n < 2 or r.torn: seen += 1
        if seen: ctx.known("K-C18-1", "responses queued when `exit` arrives outside the shutdown phase are dropped or torn (witness: initialize, request, exit in one write: %d of 20 runs lost a response)" % seen)
        else: ctx.extra["witness_K-C18-1"] = "not reproduced in 20 runs (schedule dependent)"
    else:
        # repaired (see known_findings.json): the witness is a regression test
        for k in range(20):
            r = Run(binpath); r.write(frame(msg("initialize", 1)) + b"".join(frame(msg("request", i)) for i in range(2, 2 + 3 * k)) + frame(msg("exit", 99))); res = r.finish(); got = responses(r.msgs); r.kill(); ctx.count()
            if len(got) != 1 + 3 * k or r.torn or res[:2] != ("exit", 1):
                ctx.violation("initialize, %d requests and exit in one write: %d responses%s, %r (every request must be answered before the process ends with status 1)" % (3 * k, len(got), " + torn frame" if r.torn else "", res[:2]),
                              {"kind": "sequence", "sequence": ["initialize"] + ["request"] * (3 * k) + ["exit"], "schedule": "pipelined"})
    maxlen = 4 if ctx.quick else 6
    sample = (3, .2, 20) if ctx.quick else (5, .25, 200)     # beyond length sample[0] only a fraction of the sequences (all of them up to it)
    jobs = [(i, NCPU, maxlen, ["lock-step", "pipelined"], sample, ctx.seed, open_ids) for i in range(NCPU)]
    for p in pmap(worker_seqs, jobs): ctx.merge(p)
    for p in pmap(worker_bursts, [(i, NCPU, 100 if ctx.quick else 300, ctx.seed) for i in range(NCPU)]): ctx.merge(p)
    ns = 2 if ctx.quick else len(SESSIONS)
    for p in pmap(worker_prefix, [(si, sh, 8, open_ids) for si in range(ns) for sh in range(8)]): ctx.merge(p)
    part = Part(); stdin_open_exit(part, binpath, open_ids); ctx.merge(part)
    for p in pmap(worker_stalled, [("%s/%d" % (ctx.seed, i), 2 if ctx.quick else 25) for i in range(NCPU)]): ctx.merge(p)
    c = ctx.extra.get("counters", {})
    ctx.extra["exhaustive_part"] = {"alphabet": ALPHA, "complete_up_to_length": sample[0], "sampled_fraction_beyond": sample[1], "max_length": maxlen,
                                    "sessions_lock_step": c.get("sessions_lock-step"), "sessions_pipelined": c.get("sessions_pipelined")}
    ctx.extra["fault_enumeration"] = {"sessions": ns, "prefixes": sum(v for k, v in c.items() if k.startswith("prefixes_")), "what": "every byte prefix of the session followed by end-of-input"}
    ctx.rule = ("all client message sequences up to length %d over {initialize, initialized, supported request, unknown request, document notification, unknown notification, shutdown, exit} "
                "(beyond that a sample up to length %d and random sequences up to 40), each in lock-step and pipelined schedule, closed by end-of-input if they contain no exit; every byte prefix of "
                "%d sessions followed by end-of-input; shutdown/exit with stdin left open; distinct_nontrivial = distinct (schedule, message set, exit status) and (prefix position kind) classes" % (sample[0], maxlen, ns))
    ctx.assumptions = ["the gap between the initialize result and `initialized` is not pinned down by the property: ServerNotInitialized (and InvalidRequest for a second initialize) are accepted there",
                       "exit status after end-of-input is not prescribed: 0 or 1 accepted, anything else (panic, signal) is not a clean termination",
                       "hang = still alive 10 s after end-of-input AND quiescent (all threads sleeping, no CPU time in 1 s); merely slow = inconclusive"]
    ctx.floor("evaluations", ctx.evaluations, 3000)
    ctx.floor("byte prefixes", ctx.extra["fault_enumeration"]["prefixes"], 1000)


def replay(ctx, sc):
    part = Part(); binpath = server_bin("rel")
    open_ids = set(f["id"] for f in ctx.open_findings())
    if sc["kind"] == "sequence": check_session(part, binpath, tuple(sc["sequence"]), sc["schedule"], open_ids, sc.get("variant", 0), sc.get("env"))
    elif sc["kind"] == "stdin-open": stdin_open_exit(part, binpath, open_ids)
    elif sc["kind"] == "stalled-reader": stalled_reader(part, binpath, random.Random("replay"), 12)
    else:
        seq = tuple(sc["session"]); global SESSIONS
        SESSIONS = SESSIONS + [seq]
        frames = [frame(msg(k, i)) for i, k in enumerate(seq, 1)]; data = b"".join(frames)
        r = Run(binpath); r.write(data[:sc["cut"]]); res = r.finish(); part.ev(); r.kill()
        if res[0] != "exit" or res[1] not in (0, 1): part.fail("prefix of %d bytes then end-of-input: %r" % (sc["cut"], res), sc)
    ctx.merge(part); ctx.see(1); ctx.see(2)
