use spl_frontend::{AnalyzedSource, TextChange, ErrorContainer, ToRange, ast::*, lexer, tokens::*};
use std::panic;
struct Rng(u64);
impl Rng {
    fn next(&mut self) -> u64 { self.0 = self.0.wrapping_add(0x9E3779B97F4A7C15); let mut z = self.0; z = (z ^ (z >> 30)).wrapping_mul(0xBF58476D1CE4E5B9); z = (z ^ (z >> 27)).wrapping_mul(0x94D049BB133111EB); z ^ (z >> 31) }
    fn below(&mut self, n: usize) -> usize { (self.next() % n as u64) as usize }
    fn pick<'a, T>(&mut self, v: &'a [T]) -> &'a T { &v[self.below(v.len())] }
}
fn gen_expr(r: &mut Rng, d: usize) -> String {
    match if d == 0 { r.below(3) } else { r.below(9) } {
        0 => "x".into(), 1 => format!("{}", r.below(100)), 2 => "y".into(),
        3 => format!("({})", gen_expr(r, d-1)),
        4 => format!("-{}", gen_expr(r, d-1)),
        5 => format!("a[{}]", gen_expr(r, d-1)),
        6 => format!("b[{}][{}]", gen_expr(r, d-1), gen_expr(r, d-1)),
        _ => format!("{} {} {}", gen_expr(r, d-1), r.pick(&["+","-","*","/"]), gen_expr(r, d-1)),
    }
}
fn gen_stmt(r: &mut Rng, d: usize, ind: usize) -> String {
    let p = " ".repeat(ind);
    let c = if r.below(8) == 0 { format!("{}// note\n", p) } else { String::new() };
    c + &match if d == 0 { r.below(4) } else { r.below(10) } {
        0 => format!("{}x := {};\n", p, gen_expr(r, 2)),
        1 => format!("{}foo({}, y);\n", p, gen_expr(r, 2)),
        2 => format!("{};\n", p),
        3 => format!("{}a[{}] := {};\n", p, gen_expr(r, 1), gen_expr(r, 1)),
        4 => format!("{}if ({} < {}) {{\n{}{}}}\n", p, gen_expr(r,1), gen_expr(r,1), gen_stmt(r, d-1, ind+2), p),
        5 => format!("{}if ({} = {}) {{\n{}{}}} else {{\n{}{}}}\n", p, gen_expr(r,1), gen_expr(r,1), gen_stmt(r, d-1, ind+2), p, gen_stmt(r,d-1,ind+2), p),
        6 => format!("{}while ({} # {}) {{\n{}{}}}\n", p, gen_expr(r,1), gen_expr(r,1), gen_stmt(r, d-1, ind+2), p),
        7 => format!("{}if ({} >= {})\n{}{}else\n{}", p, gen_expr(r,1), gen_expr(r,1), gen_stmt(r, 0, ind+2), p, gen_stmt(r,0,ind+2)),
        8 => format!("{}bar();\n", p),
        _ => format!("{}{{\n{}{}{}}}\n", p, gen_stmt(r, d-1, ind+2), gen_stmt(r, d-1, ind+2), p),
    }
}
fn gen_proc(r: &mut Rng, name: &str) -> String {
    let mut s = String::new();
    if r.below(3) == 0 { s += "// doc\n"; }
    let params = if name == "foo" { "x: int, y: int" } else { "" };
    s += &format!("proc {}({}) {{\n", name, params);
    if name != "foo" { s += "  var x: int;\n  var y: int;\n"; }
    s += "  var a: A;\n  var b: B;\n";
    for _ in 0..(1 + r.below(4)) { s += &gen_stmt(r, 2, 2); }
    s += "}\n";
    s
}
fn gen_prog(r: &mut Rng) -> String {
    let mut s = String::new();
    s += "type A = array [3] of int;\ntype B = array [3] of A;\nproc bar() {}\n";
    let n = 1 + r.below(3);
    for i in 0..n {
        let name = if i == n-1 { "main".to_string() } else if i == 0 { "foo".to_string() } else { format!("p{}", i) };
        if n == 1 { s += "proc foo(x: int, y: int) {}\n"; }
        s += &gen_proc(r, &name);
        if r.below(4) == 0 { s += &format!("type T{} = int;\n", i); }
    }
    s
}
// collect absolute token ranges of statements (in stmt lists) and decls
fn collect_stmts(stmts: &[Reference<Statement>], base: usize, out: &mut Vec<(usize, usize, bool)>, in_list: bool) {
    for s in stmts {
        let off = base + s.offset;
        let r = s.to_range();
        out.push((off + r.start, off + r.end, in_list));
        match s.as_ref() {
            Statement::Block(b) => collect_stmts(&b.statements, off, out, true),
            Statement::If(i) => {
                if let Some(b) = &i.if_branch { collect_stmts(std::slice::from_ref(b.as_ref()), off, out, false); }
                if let Some(b) = &i.else_branch { collect_stmts(std::slice::from_ref(b.as_ref()), off, out, false); }
            }
            Statement::While(w) => { if let Some(b) = &w.statement { collect_stmts(std::slice::from_ref(b.as_ref()), off, out, false); } }
            _ => {}
        }
    }
}
fn tr(toks: &[Token], a: usize, b: usize) -> (usize, usize) { (toks[a].range.start, toks[b-1].range.end) }

fn main() {
    let args: Vec<String> = std::env::args().collect();
    let seed: u64 = args[1].parse().unwrap(); let iters: usize = args[2].parse().unwrap();
    let verbose: Option<String> = args.get(3).cloned();
    panic::set_hook(Box::new(|_| {}));
    let mut r = Rng(seed);
    let classes = ["ws_ins","ws_del","int_repl","id_repl","stmt_ins","stmt_del","decl_ins","decl_del","cmt_ins","expr_repl","stmt_repl","type_char","tok_del","tok_ins"];
    let mut stats: std::collections::BTreeMap<&str, (usize, usize, usize)> = Default::default();
    for _ in 0..iters {
        let text = gen_prog(&mut r);
        let cur = AnalyzedSource::new(text.clone());
        if !cur.errors().is_empty() { println!("GEN INVALID {:?} {:?}", text, cur.errors()); continue; }
        let toks = &cur.tokens;
        let mut stmts = vec![];
        let mut decls = vec![];
        for gd in &cur.ast.global_declarations {
            let rg = gd.to_range();
            decls.push((gd.offset + rg.start, gd.offset + rg.end));
            if let GlobalDeclaration::Procedure(p) = gd.as_ref() { collect_stmts(&p.statements, gd.offset, &mut stmts, true); }
        }
        let class = *r.pick(&classes);
        let ntok = toks.len() - 1;
        let ch: TextChange = match class {
            "ws_ins" => { let i = r.below(ntok + 1); let p = toks[i].range.start; TextChange { range: p..p, text: (*r.pick(&[" ", "\n", "  \n ", "\t"])).to_string() } }
            "ws_del" => { // delete one whitespace char where >=2 ws chars between tokens or newline+indent
                let cands: Vec<usize> = (1..ntok).filter(|&i| toks[i].range.start - toks[i-1].range.end >= 2).collect();
                if cands.is_empty() { continue; } let i = *r.pick(&cands); let p = toks[i-1].range.end + r.below(toks[i].range.start - toks[i-1].range.end); TextChange { range: p..p+1, text: String::new() } }
            "int_repl" => { let c: Vec<usize> = (0..ntok).filter(|&i| matches!(toks[i].token_type, TokenType::Int(_))).collect(); if c.is_empty() { continue; } let i = *r.pick(&c); TextChange { range: toks[i].range.clone(), text: format!("{}", r.below(1000)) } }
            "id_repl" => { let c: Vec<usize> = (0..ntok).filter(|&i| matches!(toks[i].token_type, TokenType::Ident(_))).collect(); let i = *r.pick(&c); TextChange { range: toks[i].range.clone(), text: (*r.pick(&["x","y","zz","foo","a","q1"])).to_string() } }
            "stmt_ins" => { let c: Vec<&(usize,usize,bool)> = stmts.iter().filter(|s| s.2).collect(); if c.is_empty() { continue; } let s = *r.pick(&c); let after = r.below(2) == 1; let p = if after { toks[s.1-1].range.end } else { toks[s.0].range.start }; TextChange { range: p..p, text: format!("\n{}", gen_stmt(&mut r, 1, 2)) } }
            "stmt_del" => { let c: Vec<&(usize,usize,bool)> = stmts.iter().filter(|s| s.2).collect(); if c.is_empty() { continue; } let s = *r.pick(&c); let (a,b) = tr(toks, s.0, s.1); TextChange { range: a..b, text: String::new() } }
            "decl_ins" => { let d = *r.pick(&decls); let after = r.below(2) == 1; let p = if after { toks[d.1-1].range.end } else { toks[d.0].range.start }; let t = if r.below(2) == 0 { format!("\ntype N{} = int;\n", r.below(100)) } else { format!("\n{}", gen_proc(&mut r, "newp")) }; TextChange { range: p..p, text: t } }
            "decl_del" => { let c: Vec<&(usize,usize)> = decls.iter().skip(4).collect(); if c.is_empty() { continue; } let d = *r.pick(&c); let (a,b) = tr(toks, d.0, d.1); if text[a..b].contains("proc main") || text[a..b].contains("proc foo") { continue; } TextChange { range: a..b, text: String::new() } }
            "cmt_ins" => { let c: Vec<&(usize,usize,bool)> = stmts.iter().filter(|s| s.2).collect(); if c.is_empty() { continue; } let s = *r.pick(&c); let p = toks[s.0].range.start; TextChange { range: p..p, text: "// new comment\n".to_string() } }
            "expr_repl" => { // replace int literal token by an expression
                let c: Vec<usize> = (0..ntok).filter(|&i| matches!(toks[i].token_type, TokenType::Int(_)) && i > 8).collect(); if c.is_empty() { continue; } let i = *r.pick(&c); if matches!(toks[i-1].token_type, TokenType::LBracket) && matches!(toks[i-2].token_type, TokenType::Array) { continue; } TextChange { range: toks[i].range.clone(), text: gen_expr(&mut r, 2) } }
            "stmt_repl" => { let c: Vec<&(usize,usize,bool)> = stmts.iter().collect(); if c.is_empty() { continue; } let s = *r.pick(&c); let (a,b) = tr(toks, s.0, s.1); TextChange { range: a..b, text: gen_stmt(&mut r, 1, 2) } }
            "type_char" => { // insert one alnum char inside/adjacent to an ident or int token
                let c: Vec<usize> = (0..ntok).filter(|&i| matches!(toks[i].token_type, TokenType::Int(_))).collect(); if c.is_empty() { continue; } let i = *r.pick(&c); let p = toks[i].range.start + r.below(toks[i].range.len() + 1); TextChange { range: p..p, text: format!("{}", r.below(10)) } }
            "tok_del" => { let i = r.below(ntok); TextChange { range: toks[i].range.clone(), text: String::new() } }
            "tok_ins" => { let i = r.below(ntok+1); let p = toks[i].range.start; TextChange { range: p..p, text: format!("{} ", r.pick(&["x", "1", ";", "(", ")", "{", "}", ",", ":=", "if", "proc", "+", "[", "]", "var", "else"])) } }
            _ => unreachable!(),
        };
        let mut nt = text.clone(); nt.replace_range(ch.range.clone(), &ch.text);
        let fresh = AnalyzedSource::new(nt.clone());
        let still_valid = fresh.ast.errors().iter().all(|e| !matches!(e.1, spl_frontend::error::ErrorMessage::ParseErrorMessage(_))) && fresh.tokens.iter().all(|t| t.errors.is_empty());
        let chc = ch.clone(); let c2 = cur.clone();
        let e = stats.entry(class).or_default();
        e.0 += 1;
        match panic::catch_unwind(move || c2.update(vec![chc])) {
            Err(_) => { e.1 += 1; if verbose.as_deref() == Some(class) { println!("PANIC {:?} {:?}", text, ch); } }
            Ok(u) => {
                let div = u.tokens != fresh.tokens || u.ast != fresh.ast || u.table != fresh.table;
                if div { e.1 += 1; if still_valid { e.2 += 1; }
                    if verbose.as_deref() == Some(class) && still_valid { println!("DIV[{}] synvalid={} tok={} {:?} {:?}", class, still_valid, u.tokens != fresh.tokens, text, ch); } }
            }
        }
    }
    for (k, v) in stats { println!("{:10} n={:6} div={:6} ({:.2}%) div_with_syntactically_valid_result={}", k, v.0, v.1, 100.0 * v.1 as f64 / v.0 as f64, v.2); }
}
