#!/usr/bin/python3
"""reduce a C01 history replay to (text before the failing step, the failing change) and print it"""
import json, sys, re
sys.path.insert(0, '/verif')
from harness.core import Adaptor
from harness import edits
ad = Adaptor()
def reduce(sc):
    res = ad.call(op="history", text=sc["text"], steps=sc["steps"])
    if not (res.get("div") or res.get("update_panic")): return None
    k = res["div"]["step"] if res.get("div") else res["step"]
    text = sc["text"]
    for b in sc["steps"][:k]:
        for ch in b: text = edits.apply_change(text, ch)
    batch = sc["steps"][k]
    # try single changes of the batch
    t = text
    for i, ch in enumerate(batch):
        r = ad.call(op="history", text=t, steps=[[ch]])
        if r.get("div") or r.get("update_panic"): return t, [ch], r
        t = edits.apply_change(t, ch)
    return text, batch, res
if __name__ == "__main__":
    for f in sys.argv[1:]:
        d = json.load(open(f)); r = reduce(d["scenario"])
        if r is None: print(f, "does not fail"); continue
        text, batch, res = r
        print("=====", f)
        for ch in batch:
            b = text.encode()
            print("  change", ch, "context: %r [%r] %r" % (b[max(0,ch[0]-50):ch[0]].decode(errors='replace'), b[ch[0]:ch[1]].decode(errors='replace'), b[ch[1]:ch[1]+50].decode(errors='replace')))
        print("  ", json.dumps(res.get("div") or res.get("update_panic"))[:700])
