#!/usr/bin/python3
"""census: keystroke-level typing of brace-free statements inside procedure bodies (build-time tool)"""
import sys, random, json, collections
sys.path.insert(0, '/verif')
from harness import gen, layout, edits
from harness.core import pmap, Adaptor

def typed_stmt(rng, G, proc):
    G.cur = proc; G.type_pool = getattr(proc, "visible_types", None)
    k = rng.choice(["assign", "call", "if", "while", "ifelse"])
    def simple():
        n = G._stmt(rng.choice(["assign", "call", "empty"]), 0); return n
    if k in ("assign", "call"): n = simple()
    elif k == "if": n = gen.mk_if(G.comp(1), simple())
    elif k == "ifelse": n = gen.mk_if(G.comp(1), simple(), simple())
    else: n = gen.mk_while(G.comp(1), simple())
    toks = list(gen.walk_toks(n))
    layout.assign_ws(toks, rng, "spaced")
    toks[0].pre = "\n    "
    return layout.render(toks).rstrip("\n") if toks else ";"

def work(seed):
    rng = random.Random("typing/%s" % seed); ad = Adaptor(); out = []; n = 0
    for it in range(400):
        G = gen.Gen(random.Random(rng.getrandbits(32)), size=rng.choice([1, 2, 3]), depth=rng.choice([1, 2]), edepth=2, typed=rng.random() < .7)
        P = G.program(); G.r = rng
        text = layout.layout(P, rng, rng.choice(["random", "spaced", "lines"]))
        # insertion point: directly before a statement of a list, or before the closing brace of a body/block
        lists = gen.stmt_lists(P)
        proc, cont, depth = rng.choice(lists)
        i = rng.randint(0, len(cont.stmts))
        nxt = gen.first_tok(cont.stmts[i]) if i < len(cont.stmts) else cont.parts[-1]
        first = nxt.lead[0] if nxt.lead else nxt
        at = first.start - len((first.pre or "").encode())     # start of the gap before it
        s = typed_stmt(rng, G, proc)
        steps = []; pos = at
        mode = rng.choice(["forward", "forward", "backspace"])
        for ch in s:
            steps.append([[pos, pos, ch]]); pos += len(ch.encode())
            if mode == "backspace" and rng.random() < .1 and pos > at + 1:
                b = ch.encode(); steps.append([[pos - len(b), pos, ""]]); steps.append([[pos - len(b), pos - len(b), ch]])
        r = ad.call(op="history", text=text, steps=steps)
        n += r.get("steps_done", 0)
        if r.get("div") or r.get("update_panic"):
            k = (r.get("div") or {}).get("step", r.get("step"))
            cur = text
            for st in steps[:k]:
                for c in st: cur = edits.apply_change(cur, c)
            d = r.get("div")
            if d:
                fe = [tuple(e[:3]) for e in d["detail"].get("fresh_errors", [])]; ue = [tuple(e[:3]) for e in d["detail"].get("updated_errors", [])]
                only_f = sorted(set(e[2] for e in fe if e not in ue)); only_u = sorted(set(e[2] for e in ue if e not in fe))
                sig = "%s | only fresh %s | only updated %s" % (",".join(d["what"]), only_f[:3], only_u[:3])
            else: sig = "panic " + r["update_panic"]["message"][:60]
            out.append((sig, cur, steps[k][0], s))
    ad.close()
    return n, out

if __name__ == "__main__":
    tot = 0; allw = []
    for n, out in pmap(work, range(int(sys.argv[1]) if len(sys.argv) > 1 else 16)):
        tot += n; allw += out
    print("steps", tot, "diverging histories", len(allw))
    by = collections.Counter(w[0] for w in allw)
    for k, v in by.most_common(30): print(v, k)
    json.dump([{"sig": w[0], "text": w[1], "change": w[2], "typed": w[3]} for w in allw[:200]], open("/tmp/c01typing.json", "w"), indent=1)
