#!/usr/bin/python3
"""census (build-time tool): valid->valid edits delivered as keystrokes (delete by backspace / at once, type character by character
or in small chunks), compared with a fresh analysis only at the steps whose text is syntactically valid again."""
import sys, os, random, json, collections
sys.path.insert(0, '/verif')
from harness.core import pmap, Adaptor
from harness.checks import c01

if __name__ == "__main__":
    nw = int(sys.argv[1]) if len(sys.argv) > 1 else 16
    nh = int(sys.argv[2]) if len(sys.argv) > 2 else 200
    def work(i):
        rng = random.Random("excursion/%s/%s" % (os.environ.get("CENSUS_SALT",""), i)); ad = Adaptor(); out = []; steps_done = judged = 0
        for it in range(nh):
            text0, steps, labels, doc = c01.make_history(rng, 6, single=True)
            if not steps: continue
            keys = c01.expand_typing(rng, text0, steps)
            r = ad.call(op="history", text=text0, steps=keys, judge=os.environ.get("JUDGE", "valid"))
            steps_done += r.get("steps_done", 0); judged += r.get("judged", 0)
            if r.get("div") or r.get("update_panic") or r.get("fresh_panic"):
                d = r.get("div")
                if d:
                    fe = [tuple(e[:3]) for e in d["detail"].get("fresh_errors", [])]; ue = [tuple(e[:3]) for e in d["detail"].get("updated_errors", [])]
                    only_f = sorted(set(e[2] for e in fe if e not in ue)); only_u = sorted(set(e[2] for e in ue if e not in fe))
                    sig = "%s | only fresh %s | only updated %s" % (",".join(d["what"]), only_f[:3], only_u[:3])
                else: sig = "panic " + json.dumps(r.get("update_panic") or r.get("fresh_panic"))[:100]
                out.append((sig, {"kind": "history", "text": text0, "steps": keys[:(d or r)["step"] + 1], "judge": "valid", "labels": labels}))
        ad.close()
        return steps_done, judged, out
    tot = jud = 0; allw = []
    for n, j, out in pmap(work, range(nw)):
        tot += n; jud += j; allw += out
    print("keystroke steps", tot, "judged (valid) steps", jud, "diverging histories", len(allw))
    by = collections.Counter(w[0] for w in allw)
    for k, v in by.most_common(30): print(v, k)
    json.dump([{"sig": w[0], "scenario": w[1]} for w in allw[:200]], open("/tmp/c01excursion%s.json" % os.environ.get("CENSUS_SALT",""), "w"), indent=1)
