# tree well-formedness invariants on FRESH parses of hostile texts (C02 in-process part), via Debug dump
import subprocess, random, sys, collections
from astcmp import parse_debug
from splgen import *
FRAGS = ["proc ", "type ", "var ", "if ", "else ", "while ", "array ", "of ", "ref ", "int", "x", "main", "printi", "(", ")", "[", "]", "{", "}", ";", ":", ":=", "=", "#", "<", "<=", "+", "-", "*", "/", ",", "0", "12", "0x1F", "0x", "'a'", "'", "'\\n'", "// c\n", "//", " ", "\n", "ä", "€", "😀", "_", "\r\n", "\t", "99999999999"]
def mutate(rng, text):
    if rng.random() < .3: return "".join(rng.choice(FRAGS) for _ in range(rng.randint(0, 40)))
    t = text
    for _ in range(rng.randint(1, 4)):
        a = rng.randrange(len(t) + 1); b = min(len(t), a + rng.choice([0, 0, 1, 2, 5, 30]))
        t = t[:a] + "".join(rng.choice(FRAGS) for _ in range(rng.randint(0, 3))) + t[b:]
    return t.replace("\0", "")
N = int(sys.argv[1]); texts = []
for seed in range(N):
    rng = random.Random(seed); g, text = generate(seed); texts.append(mutate(rng, text))
p = subprocess.run(["/tmp/probe/fe/target/release/astdbg"], input=b"\0".join(t.encode() for t in texts), capture_output=True)
lx = subprocess.run(["/tmp/probe/fe/target/release/lexdump"], input=b"\0".join(t.encode() for t in texts), capture_output=True).stdout.decode().split("\n")
dumps = p.stdout.decode().split("\x01")
viol = collections.Counter(); ex = {}
def walk(node, base, parent, ntok, path):
    """returns list of (abs_start, abs_end) of this node if it has info; checks containment"""
    if node is None: return
    if isinstance(node, list):
        prev_end = None
        for x in node:
            r = walk(x, base, parent, ntok, path)
        return
    if not isinstance(node, dict): return
    n = node["_"]
    if n == "Reference":
        return walk(node["reference"], base + node["offset"], parent, ntok, path + ["&"])
    info = node.get("info") if "info" in node else (node["args"][0] if n in ("Empty", "Error") and "args" in node and isinstance(node["args"][0], dict) and node["args"][0].get("_") == "AstInfo" else None)
    me = parent
    if info and isinstance(info, dict) and "range" in info:
        a, b = base + info["range"][1], base + info["range"][2]
        me = (a, b)
        if not (0 <= a <= b <= ntok): note("range outside tokens", (n, a, b, ntok))
        if parent and not (parent[0] <= a and b <= parent[1]): note("child outside parent %s" % n, (n, a, b, parent))
        for e in info["errors"]:
            ea, eb = base + e["args"][0][1], base + e["args"][0][2]
            if not (0 <= ea <= eb <= ntok) or (ea == eb and eb >= ntok + 1): note("error range outside tokens", (n, ea, eb, ntok))
    for k, v in node.items():
        if k in ("_", "info"): continue
        if k == "args":
            for x in v: walk(x, base, me, ntok, path + [n])
        else: walk(v, base, me, ntok, path + [n])
cur = None
def note(k, info):
    viol[k] += 1
    if k not in ex: ex[k] = (cur, info)
for i, (t, d, l) in enumerate(zip(texts, dumps, lx)):
    cur = repr(t[:120])
    ntok = len([x for x in l.split("\x01") if x])  # includes EOF
    tree = parse_debug(d)
    pr = tree["info"]["range"]
    if pr[2] > ntok: note("program range", pr)
    walk(tree["global_declarations"], 0, (pr[1], pr[2]), ntok, [])
print("texts", N, dict(viol))
for k, v in ex.items(): print(k, v)
