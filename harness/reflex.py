"""Reference lexer for SPL, written from the lexical grammar of the language (regex based, shares nothing
with the implementation).  Longest match; keywords only as whole words; decimal, hexadecimal and character
literal values; a comment runs to the end of its line or of the text.

lex(text) -> list of (kind, value, start, end) with byte offsets, ending with ("eof", None, len, len)
  kind: a keyword or symbol spelled out, or ident | int | hex | char | comment | unknown | eof
  value: name / number (None if it does not fit 32 bit or digits are missing) / code / comment body / character
"""
import re

KEYWORDS = {"if", "else", "while", "array", "of", "proc", "ref", "type", "var"}
TOKRE = re.compile(
    r"(?P<comment>//[^\n]*(?:\n|\Z))"
    r"|(?P<sym>:=|<=|>=|[()\[\]{}=#<>:,;+\-*/])"
    r"|(?P<char>'(?:\\n|[\s\S])'?)"
    r"|(?P<hex>0x[0-9a-fA-F]*)"
    r"|(?P<int>[0-9]+)"
    r"|(?P<word>[A-Za-z_][A-Za-z0-9_]*)"
    r"|(?P<ws>[ \t\r\n]+)"
    r"|(?P<unk>[\s\S])")
U32 = 2 ** 32


def lex(text):
    out = []
    ascii_only = text.isascii()
    if not ascii_only:
        # map code point index -> byte offset
        offs = [0] * (len(text) + 1); p = 0
        for i, ch in enumerate(text):
            offs[i] = p
            o = ord(ch)
            p += 1 if o < 0x80 else 2 if o < 0x800 else 3 if o < 0x10000 else 4
        offs[len(text)] = p
    for m in TOKRE.finditer(text):
        k = m.lastgroup
        if k == "ws": continue
        v = m.group()
        a, b = m.span()
        if not ascii_only: a, b = offs[a], offs[b]
        if k == "comment":
            body = v[2:-1] if v.endswith("\n") else v[2:]
            out.append(("comment", body, a, b))
        elif k == "sym":
            out.append((v, None, a, b))
        elif k == "char":
            inner = v[1:-1] if (len(v) >= 3 and v.endswith("'") and (len(v) == 3 or v[1:3] == "\\n")) else v[1:]
            # v is one of  'c'  '\n'  'c (missing tick)  '\n (missing tick)
            if v.startswith("'\\n"):
                code = 10; closed = v == "'\\n'"
            else:
                code = ord(v[1]); closed = len(v) == 3
            out.append(("char", code, a, b) if closed else ("char!", code, a, b))
        elif k == "hex":
            digits = v[2:]
            val = int(digits, 16) if digits else None
            if val is not None and val >= U32: val = None
            out.append(("hex", val, a, b))
        elif k == "int":
            val = int(v)
            out.append(("int", val if val < U32 else None, a, b))
        elif k == "word":
            if v in KEYWORDS: out.append((v, None, a, b))
            else: out.append(("ident", v, a, b))
        else:
            out.append(("unknown", v, a, b))
    n = len(text) if ascii_only else offs[len(text)]
    out.append(("eof", None, n, n))
    return out


def significant(tokens):
    """non-comment tokens as (kind, value): the program a formatter must preserve"""
    out = []
    for k, v, a, b in tokens:
        if k in ("comment", "eof"): continue
        if k in ("int", "hex", "char"): out.append(("num", v))
        else: out.append((k, v))
    return out


def comments(tokens):
    return [v.strip() for k, v, a, b in tokens if k == "comment"]
