import subprocess, random, re, sys
LEX = ["proc","type","var","if","else","while","array","of","ref","int","x","y1","_a","ifx","proce","whil","(",")","[","]","{","}",";",":",":=","=","#","<","<=",">",">=","+","-","*","/",",","0","12","007","4294967295","4294967296","0x1F","0xff","0xFFFFFFFF","0x100000000","'a'","' '","'\\n'","'''","'\\'","// c\n","// x := 1; 'a' \n","//\n"]
SEP = [" ", "\n", "\t", "\r\n", "  ", ""]
TOKRE = re.compile(r"(?P<comment>//[^\n]*(?:\n|$))|(?P<hex>0x[0-9a-fA-F]+)|(?P<int>[0-9]+)|(?P<char>'(?:\\n|[^\n])')|(?P<id>[A-Za-z_][A-Za-z0-9_]*)|(?P<sym>:=|<=|>=|[()\[\]{}=#<>:,;+\-*/])|(?P<ws>[ \t\r\n]+)|(?P<unk>.)", re.S)
KW = {"proc","type","var","if","else","while","array","of","ref"}
def ref(text):
    out = []; b = text.encode()
    for m in TOKRE.finditer(text):
        k = m.lastgroup; v = m.group()
        if k == "ws": continue
        s = len(text[:m.start()].encode()); e = s + len(v.encode())
        if k == "hex": val = int(v[2:], 16); out.append(("int:%s" % (val if val < 2**32 else "ERR"), s, e))
        elif k == "int": val = int(v); out.append(("int:%s" % (val if val < 2**32 else "ERR"), s, e))
        elif k == "char": out.append(("int:%d" % (10 if v == "'\\n'" else ord(v[1])), s, e))
        elif k == "comment": out.append(("comment", s, e))
        elif k == "id": out.append((v if v in KW else "id:" + v, s, e))
        elif k == "sym": out.append((v, s, e))
        else: out.append(("unk", s, e))
    out.append(("eof", len(b), len(b)))
    return out
rng = random.Random(int(sys.argv[1])); N = int(sys.argv[2])
texts = []
for _ in range(N):
    n = rng.randint(0, 12); parts = []
    for i in range(n):
        lx = rng.choice(LEX); parts.append(lx)
        if not lx.endswith("\n"):
            sep = rng.choice(SEP)
            parts.append(sep)
    texts.append("".join(parts))
# also arbitrary unicode tiling
UNI = list("aZ09_ \n\t\r'\"/\\äß€😀\u0131\u0142xX0;:=<>#")
for _ in range(N):
    texts.append("".join(rng.choice(UNI) for _ in range(rng.randint(0, 15))))
p = subprocess.run(["/tmp/probe/fe/target/release/lexdump"], input=b"\0".join(t.encode() for t in texts), capture_output=True)
lines = p.stdout.decode().split("\n")
bad = 0; tiling_bad = 0
import collections
cats = collections.Counter()
for t, l in zip(texts, lines):
    got = [tuple(x.rsplit(" ", 3)) for x in l.split("\x01") if x]
    got = [(k, int(s), int(e)) for (k, s, e, ne) in got]
    # tiling
    b = t.encode(); pos = 0; ok = True
    for (k, s, e) in got:
        if s < pos or e < s: ok = False
        if b[pos:s].strip(b" \t\r\n") != b"": ok = False
        try: b[s:e].decode()
        except Exception: ok = False
        pos = e
    if got[-1][0] != "eof" or sum(1 for g in got if g[0] == "eof") != 1 or b[pos:].strip() != b"": ok = False
    if not ok: tiling_bad += 1; print("TILING", repr(t), got)
    exp = ref(t)
    if exp != got:
        bad += 1
        # categorize first diff
        for a, c in zip(exp, got):
            if a != c:
                cats[(a[0].split(":")[0], c[0].split(":")[0])] += 1
                if cats[(a[0].split(":")[0], c[0].split(":")[0])] <= 2: print("DIFF", repr(t), "exp", a, "got", c)
                break
print("texts", len(texts), "conformance diffs", bad, "tiling bad", tiling_bad, dict(cats))
