"""Shared plumbing of the feature checks (C09-C17): generated programs opened in the real server, crash attribution."""
import random, re
from .core import Part, server_bin, load_findings
from .client import Server, ServerDied, Timeout, FrameError, tdp, panic_signature
from . import gen, layout


def type_decl_spans(P, text):
    """character index ranges of the type declarations of a generated program (places where an arrival edit is most telling:
    everything that was resolved against the earlier version of a type has to be resolved again)"""
    b = text.encode(); out = []
    for t in P.types:
        toks = list(gen.walk_toks(t.node))
        if toks: out.append((len(b[:toks[0].start].decode()), len(b[:toks[-1].end].decode())))
    return out


ARRIVALS = {}


def _arr(k): ARRIVALS[k] = ARRIVALS.get(k, 0) + 1


def report(part):
    """how the documents of this worker reached the server (evidence)"""
    for k, v in ARRIVALS.items(): part.cnt("documents_" + k, v)
    ARRIVALS.clear()


PRIME_DOC = [("textDocument/semanticTokens/full", {}), ("textDocument/foldingRange", {}), ("textDocument/formatting", {"options": {"tabSize": 4, "insertSpaces": True}})]
PRIME_POS = ["textDocument/hover", "textDocument/definition", "textDocument/declaration", "textDocument/typeDefinition", "textDocument/implementation", "textDocument/references",
             "textDocument/prepareRename", "textDocument/completion", "textDocument/signatureHelp"]


def prime(srv, uri, text, r):
    """the client asks about the EARLIER version of the document before it changes it (as an editor does all the time): whatever
    the server remembers from answering must not leak into the answers for the later text. The answers are discarded."""
    T = layout.Text(text)
    for m, extra in r.sample(PRIME_DOC, r.choice([1, 2, 3])):
        q = {"textDocument": {"uri": uri}}; q.update(extra); srv.request(m, q, 20)
    words = [mm.start() for mm in re.finditer(r"[A-Za-z_][A-Za-z_0-9]*|\(|,", text)]
    for _ in range(r.choice([1, 2, 4])):
        if not words: break
        i = r.choice(words) + r.choice([0, 0, 1])
        l, c = T.pos(len(text[:i].encode()))
        for m in r.sample(PRIME_POS, r.choice([1, 2, 4])):
            q = tdp(uri, l, c)
            if m.endswith("references"): q["context"] = {"includeDeclaration": True}
            srv.request(m, q, 20)
    _arr("primed_with_requests_on_the_earlier_version")


def arrive(srv, uri, text, salt, p=.33, prefer=None):
    """opens the document; with probability p it *arrives* at the text by an edit: an earlier version (a random span and, half of the
    time, one blank missing) is opened and one didChange notification restores it. The server then holds exactly `text`, so every
    oracle applies unchanged, but the answers come from the incrementally updated analysis. Returns True if it arrived by an edit."""
    r = random.Random("arrive/%d/%s" % (len(text), salt))
    if p and r.random() < p * .45 and len(text) > 2:
        if arrive_chain(srv, uri, text, r, prefer): return True
        _arr("opened_fresh"); srv.open(uri, text); return False
    elif p and r.random() < p and len(text) > 2:
        a, e = sorted(r.sample(range(len(text) + 1), 2))
        if r.random() < .5: e = min(e, a + r.choice([1, 3, 10, 40]))
        if prefer and r.random() < .5:
            pa_, pe_ = r.choice(prefer)                     # a piece of (or a whole) preferred range, e.g. a type declaration
            if pe_ - pa_ >= 2: a, e = sorted(r.sample(range(pa_, pe_ + 1), 2)) if r.random() < .6 else (pa_, pe_)
        if e > a and not (a > 0 and text[a - 1] == "\r" and text[a:a + 1] == "\n") and not (text[e - 1:e] == "\r" and text[e:e + 1] == "\n"):
            t0 = text[:a] + text[e:]; span = text[a:e]
            T0 = layout.Text(t0); pa = T0.lsp(len(text[:a].encode()))
            changes = [{"range": {"start": pa, "end": pa}, "text": span}]
            ws = [i for i, c in enumerate(text) if c == " " and not (a <= i < e)]
            if ws and r.random() < .5:
                # ... and a second, layout-only change in the same notification (a blank that was missing as well)
                w = r.choice(ws)
                w0 = w if w < a else w - (e - a)                     # index of the blank's place in t0
                t00 = t0[:w0] + t0[w0 + 1:]
                a0 = a if a <= w0 else a - 1                         # index of the span's place in t00
                T00 = layout.Text(t00); pa = T00.lsp(len(t00[:a0].encode()))
                t1 = t00[:a0] + span + t00[a0:]
                w1 = w                                               # after the span is back the blank belongs at its final index
                if w < a: w1 = w
                pw = layout.Text(t1).lsp(len(t1[:w1].encode()))
                changes = [{"range": {"start": pa, "end": pa}, "text": span}, {"range": {"start": pw, "end": pw}, "text": " "}]
                t0 = t00
            from . import lspmodel
            if lspmodel.apply_changes(t0, changes) == text:          # (the harness's own arithmetic is checked against the LSP model)
                srv.open(uri, t0)
                if r.random() < .4: prime(srv, uri, t0, r)
                srv.change(uri, changes, 1)
                _arr("reached_by_one_edit"); return True
    _arr("opened_fresh"); srv.open(uri, text)
    return False


def arrive_chain(srv, uri, text, r, prefer=None):
    """the longer way to the text: 1-3 edits, built backwards from `text`. Each edit inserts a missing span, deletes a surplus chunk
    (a copy of a span from elsewhere in the document) or replaces such a chunk by the span that belongs there; the edits come in
    separate notifications or batched in one; one way in ten the URI first held another text, was closed and is opened again.
    Whatever the way, the server ends up holding exactly `text`."""
    from . import lspmodel
    if r.random() < .1:
        other = text[:len(text) // 2] if r.random() < .5 else text + text[len(text) // 3:]
        srv.open(uri, other)
        if r.random() < .5: prime(srv, uri, other, r)
        if r.random() < .5:
            try: srv.change(uri, [{"text": other + " "}], 1)
            except Exception: pass
        srv.close_doc(uri); srv.open(uri, text)
        _arr("reopened_after_close"); return True
    cur = text; back = []                                    # back[i] = (previous text, change leading from it to the next text)
    for _ in range(r.choice([1, 2, 2, 3])):
        if len(cur) < 3: break
        a, e = sorted(r.sample(range(len(cur) + 1), 2))
        if r.random() < .6: e = min(e, a + r.choice([1, 3, 10, 40]))
        if prefer and not back and r.random() < .4:
            pa_, pe_ = r.choice(prefer)
            if pe_ - pa_ >= 2 and pe_ <= len(cur): a, e = sorted(r.sample(range(pa_, pe_ + 1), 2)) if r.random() < .6 else (pa_, pe_)
        mode = r.choice(["ins", "ins", "del", "repl"])
        if mode == "del": e = a
        if mode == "ins" and e == a: continue
        old = ""
        if mode != "ins":
            x = r.randrange(len(cur)); old = cur[x:x + r.choice([1, 2, 5, 12, 30])]
        prev = cur[:a] + old + cur[e:]
        if prev == cur: continue
        T = layout.Text(prev)
        ch = {"range": {"start": T.lsp(len(prev[:a].encode())), "end": T.lsp(len(prev[:a + len(old)].encode()))}, "text": cur[a:e]}
        if lspmodel.apply_changes(prev, [ch]) != cur: continue          # (a cut between CR and LF: the LSP line model reads the range differently)
        back.append((prev, ch)); cur = prev
    if not back: return False
    back.reverse()
    changes = [ch for _, ch in back]
    if lspmodel.apply_changes(back[0][0], changes) != text: return False
    if r.random() < .15:
        # ... the notification ends with a full-text replacement (ranged changes that altered the length in front of it)
        batch = changes + [{"text": text}] if r.random() < .5 else changes[:-1] + [{"text": lspmodel.apply_changes(back[0][0], changes[:-1]) + " "}, {"text": text}]
        if lspmodel.apply_changes(back[0][0], batch) != text: return False
        srv.open(uri, back[0][0])
        if r.random() < .4: prime(srv, uri, back[0][0], r)
        srv.change(uri, batch, 1)
        _arr("reached_by_batch_ending_in_full_text"); return True
    if r.random() < .25:
        # an earlier life of the same URI with MORE versions than the history that follows (versions start again with every didOpen)
        srv.open(uri, text[len(text) // 3:])
        for v in range(1, r.choice([3, 5, 8])): srv.change(uri, [{"text": text[:len(text) // 2] + " " * v}], v)
        srv.close_doc(uri); _arr("with_an_earlier_life_of_higher_versions")
    srv.open(uri, back[0][0])
    if r.random() < .4: prime(srv, uri, back[0][0], r)
    if len(changes) > 1 and r.random() < .4: srv.change(uri, changes, 1)
    else:
        for v, ch in enumerate(changes):
            srv.change(uri, [ch], v + 1)
            if v + 1 < len(changes) and r.random() < .2: prime(srv, uri, back[v + 1][0], r)
    _arr("reached_by_chain_of_%d" % len(changes)); return True


def neighbour_text(text, r, kind, prev_text):
    """a text for the neighbour document (see Session.open); falls back to the text itself"""
    if kind == "previous": return prev_text if prev_text is not None else text
    code = re.sub(r"//[^\n]*", lambda m: "/" * len(m.group()), text)          # comments blanked out, same indices
    if kind == "same_length_name":
        names = sorted(set(re.findall(r"(?<![\w'])[a-zA-Z_][A-Za-z0-9_]*(?![\w'])", code)) - {"proc", "type", "var", "if", "else", "while", "array", "of", "ref", "int", "main"})
        if not names: return text
        a = r.choice(names)
        same = [n for n in names if len(n) == len(a) and n != a]
        b = r.choice(same) if same and r.random() < .6 else a[:-1] + ("z" if a[-1] != "z" else "y")
        occ = [m.start() for m in re.finditer(r"(?<![\w'])%s(?![\w'])" % re.escape(a), code)]
        if not occ: return text
        if r.random() < .5: occ = [r.choice(occ)]
        out = text
        for i in occ: out = out[:i] + b + out[i + len(a):]
        return out
    if kind == "same_length_layout":
        nls = [i for i, c in enumerate(code) if c == "\n" and code[i - 1:i] != "\r" and code[i - 1:i] != "'" and code[max(0, code.rfind("\n", 0, i)):i].count("/") == 0]
        sps = [i for i, c in enumerate(code) if c == " " and code[i - 1:i] != "'" and code[max(0, code.rfind("\n", 0, i)):i].count("/") == 0]
        if not nls or not sps: return text
        out = list(text)
        for _ in range(r.choice([1, 1, 2, 5])):
            i = r.choice(nls); j = r.choice(sps)
            if out[i] == "\n" and out[j] == " ": out[i] = " "; out[j] = "\n"
        return "".join(out)
    return text


class Session:
    """one server process per worker; every document gets its own URI and is closed again"""
    def __init__(s, variant="rel", diagnostics=True):
        s.variant = variant; s.diagnostics = diagnostics; s.srv = None; s.n = 0; s.deaths = 0
        s.via_edit = .33; s.arrived = 0; s.decoys_p = .3; s.decoy = {}; s.prev_text = None

    def server(s):
        if s.srv is None or not s.srv.alive():
            s.srv = Server(server_bin(s.variant), diagnostics=s.diagnostics)
        return s.srv

    def open(s, text, tag="doc", prefer=None):
        """opens the document, in part of the cases by way of an edit history (see `arrive`) and next to an open neighbour document"""
        s.n += 1
        uri = "file:///verif/%s%d.spl" % (tag, s.n)
        srv = s.server(); srv.drop_notes()
        r = random.Random("decoy/%d/%d" % (len(text), s.n))
        kind = None
        if s.decoys_p and r.random() < s.decoys_p:
            # A second document is open next to the one under test: the same text, a text of the SAME LENGTH (one name exchanged for
            # another of equal length; a line break and a blank exchanged, so that no token moves but the lines do), the previous
            # document of this session, or a twin that was opened with this very text and then edited. Every request of the check is
            # sent for the neighbour first, at the same position (answer discarded). Documents never influence each other: whatever
            # the server keeps from answering for the neighbour must not show in the answers for this one.
            d = uri + ".decoy"
            kind = r.choice(["same_text", "same_length_name", "same_length_name", "same_length_layout", "same_length_layout", "previous", "edited_twin"])
            dt = neighbour_text(text, r, "same_length_name" if kind == "edited_twin" else kind, s.prev_text)
            if kind == "edited_twin":
                srv.open(d, text); prime(srv, d, text, r); srv.change(d, [{"text": dt}], 1)
        if arrive(srv, uri, text, s.n, s.via_edit, prefer): s.arrived += 1
        if kind is not None:
            if kind != "edited_twin": srv.open(d, dt)
            s.decoy[uri] = d; _arr("with_an_open_neighbour_" + kind)
        s.prev_text = text
        return uri

    def close(s, uri):
        if s.srv is not None and s.srv.alive():
            s.srv.close_doc(uri)
            if uri in s.decoy: s.srv.close_doc(s.decoy.pop(uri))

    def req(s, method, params, timeout=20):
        u = (params.get("textDocument") or {}).get("uri") if isinstance(params, dict) else None
        if u in s.decoy:
            q = dict(params, textDocument={"uri": s.decoy[u]})          # the neighbour is asked first, at the same position
            s.server().request(method, q, timeout)
        return s.server().request(method, params, timeout)

    def result(s, method, params):
        """result of a request; an error response is returned as {"__error__": ...}"""
        r = s.req(method, params)
        if "error" in r: return {"__error__": r["error"]}
        return r.get("result")

    def kill(s):
        if s.srv is not None: s.srv.kill()
        s.srv = None


def died(part, e, what, scenario, sess):
    """a request killed the server or went unanswered: that refutes the property under test for this input as well (no answer = wrong answer)"""
    sess.deaths += 1
    if isinstance(e, ServerDied): desc = "server died (status %s, %s)" % (e.status, panic_signature(e.stderr),)
    else: desc = "%s: %s" % (type(e).__name__, e)
    part.fail("%s: %s" % (what, desc), scenario)
    sess.kill()


def program(rng, **opts):
    """(P, text, Text) of a generated well-typed program under a random layout"""
    o = dict(size=rng.choice([1, 2, 3, 4, 6]), depth=rng.choice([1, 2, 3]), edepth=rng.choice([1, 2, 3]))
    o.update(opts)
    seed = rng.getrandbits(32)
    gap = o.pop("gap_comments", .3)
    P = gen.generate(seed, **o)
    if rng.random() < gap:
        # comment lines in arbitrary token gaps (between a keyword and a name, inside expressions, before separators ...)
        n = 0
        for t in list(P.toks):
            if t.kind != "comment" and rng.random() < .08:
                for _ in range(rng.choice([1, 1, 1, 2, 3])):
                    n += 1; t.lead.append(gen.Tok("comment", "// gap %d %s" % (n, rng.choice(["", "ü€", "a, b", "x := 1;", "a\rb := 1;"]))))
        P.index()
    eol = rng.choice(["\n", "\n", "\r\n"])
    style = rng.choice(["random", "random", "spaced", "compact", "lines"])
    stray = style == "random" and rng.random() < .25      # lone carriage returns: line breaks for LSP positions, white space for SPL
    text = layout.layout(P, rng, style, eol, final=rng.choice([None, "", eol] + (["\r"] if stray else [])), stray_cr=stray)
    return P, text, layout.Text(text)


def rng_of(T, tok): return T.rng(tok.start, tok.end)


def rkey(r): return (r["start"]["line"], r["start"]["character"], r["end"]["line"], r["end"]["character"])


def columns(rng, T, tok, which="fml"):
    """cursor positions inside a token: first, middle, last character"""
    l, c = T.pos(tok.start)
    n = len(tok.text)
    cols = {"f": 0, "m": n // 2, "l": n - 1}
    return sorted(set((l, c + cols[w]) for w in which))


def bkey(b):
    """identity of a binding"""
    return id(b) if isinstance(b, gen.Decl) else b


def idents(P): return [t for t in P.toks if t.kind == "id"]


def proc_of_tokens(P):
    """token uid -> enclosing procedure declaration"""
    m = {}
    for p in P.procs:
        for t in gen.walk_toks(p.node): m[t.uid] = p
    return m


def shadowing_local(P, tok, pmap_=None):
    """Known-finding class K-C1x-shadow: an identifier that denotes a global entity *by its position* - a type name in type position, or
    the procedure's own name in its header - inside a procedure that has a parameter or local variable of the same name. The request
    handlers look every identifier up locals-first without regard to its position and answer for the local. Returns that local, or None."""
    if tok.kind != "id" or not isinstance(tok.bind, gen.Decl) or tok.bind.kind not in ("type", "proc"): return None
    pm = pmap_ if pmap_ is not None else proc_of_tokens(P)
    p = pm.get(tok.uid)
    if p is None: return None
    for v in p.params + p.locals:
        if v.name == tok.text: return v
    return None
