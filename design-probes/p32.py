# C16 extra position kinds: after ':=' / '(' in statements, top-level gaps; with placements
from lsp import *
from splgen import *
import sys, collections, random
N = int(sys.argv[1]); S = Server()
cls = collections.defaultdict(lambda: [0, 0, None])
def tk(t): return t.text if t.kind in ("sym", "kw") else t.kind
for seed in range(N):
    rng = random.Random(seed); g = Gen(rng).program(); toks = g.toks
    allprocs = set(p.name for p in g.procs) | set(BUILTINS); alltypes = set(t.name for t in g.types) | {"int"}
    proc_of = {}
    for p in g.procs:
        for i in range(p.first_tok.idx, p.last_tok.idx + 1): proc_of[i] = p
    points = []
    for i, t in enumerate(toks[:-1]):
        if t.text == ":=" : points.append(("after:=", i + 1))
        if t.text == "(" and i in proc_of and toks[i-1].kind == "id" and toks[i-1].role == "use" and i > proc_of[i].lcurly.idx: points.append(("after-call(", i + 1))
        if t.text == "(" and toks[i-1].text in ("if", "while"): points.append(("after-if/while(", i + 1))
    decls = sorted(g.types + g.procs, key=lambda d: d.first_tok.idx)
    for d in decls: points.append(("top-after-" + d.kind, d.last_tok.idx + 1))
    points.append(("top-bof", 0))
    rng.shuffle(points)
    for kind, ti in points[:14]:
        for placement in ("touch-prev", "mid-ws", "touch-next", "own-line"):
            if ti == 0 and placement == "touch-prev": continue
            gapws = {"touch-prev": "  ", "mid-ws": "   ", "touch-next": "  ", "own-line": "\n\n\n"}[placement]
            parts = []; pos = 0; cursor = None
            seq = toks + [Tok("eof", "")]
            for i, t in enumerate(seq):
                if i or ti == 0:
                    ws = gapws if i == ti else ("" if i == 0 else "\n" if seq[i-1].kind == "comment" else " ")
                    if i == ti and i and seq[i-1].kind == "comment": ws = "\n" + gapws
                    gs = pos + (1 if i and seq[i-1].kind == "comment" and i == ti else 0)
                    parts.append(ws); pos += len(ws.encode())
                    if i == ti: cursor = {"touch-prev": gs, "mid-ws": gs + 1, "touch-next": pos, "own-line": gs + 1}[placement]
                parts.append(t.text); pos += len(t.text.encode())
            text = "".join(parts); tb = text.encode(); uri = "file:///k.spl"; S.open(uri, text)
            l, c = pos_of(tb, cursor)
            r = S.request("textDocument/completion", tdp(uri, l, c)).get("result")
            labels = [(i["label"], i.get("kind")) for i in (r or [])]
            if kind.startswith("top"):
                ok = r is not None and set(x[0] for x in labels) <= {"proc", "type", "main"} and {"proc", "type"} <= set(x[0] for x in labels)
                key = (kind, placement)
            else:
                proc = proc_of[ti - 1]
                exp_v = set(v.name for v in proc.params + proc.locals)
                gv = set(x[0] for x in labels if x[1] == 6); gt = set(x[0] for x in labels if x[1] == 22)
                ok = r is not None and gv == exp_v and not gt
                key = (kind, placement, "procs-too" if any(x[1] == 3 for x in labels) else "", "null" if r is None else "")
            cls[key][0 if ok else 1] += 1
            if not ok and cls[key][2] is None: cls[key][2] = (text[max(0, cursor - 25):cursor] + "‸" + text[cursor:cursor + 15], sorted(set(x[0] for x in labels))[:8])
for k, v in sorted(cls.items(), key=str): print(k, v[:2], v[2] if v[1] else "")
