# C03 syntax faults: delete one token from a valid program; which deletions give exactly one syntax diagnostic, and which message?
from lsp import *
from splgen import *
import sys, collections, random
N = int(sys.argv[1]); S = Server()
stat = collections.defaultdict(collections.Counter); ex = {}
for seed in range(N):
    rng = random.Random(seed); g = Gen(rng).program(); toks = g.toks
    for i in rng.sample(range(len(toks)), min(25, len(toks))):
        t = toks[i]
        if t.kind == "comment": continue
        s2 = toks[:i] + toks[i+1:]
        text = layout(s2, random.Random(seed), style="plain"); tb = text.encode()
        S.open("file:///s.spl", text); d = S.diags("file:///s.spl")
        syn = [x for x in d if x["message"].startswith(("expected", "missing", "unexpected"))]
        label = (t.node[0] if t.node else "?", t.text if t.kind in ("sym", "kw") else t.kind)
        # position: diagnostic should sit at the token before the deleted one (or on the following unexpected stuff)
        prev = toks[i-1] if i else None
        where = None
        if len(syn) == 1 and prev is not None:
            r = syn[0]["range"]; a = pos_of(tb, prev.start); b = pos_of(tb, prev.end)
            where = "at-prev-token" if (r["start"]["line"], r["start"]["character"]) >= a and (r["end"]["line"], r["end"]["character"]) <= b else "elsewhere"
        key = "%d syn: %s %s" % (len(syn), "|".join(sorted(x["message"].strip() for x in syn))[:60], where or "")
        stat[label][key] += 1
for label in sorted(stat, key=str):
    print(label, dict(stat[label].most_common(4)))
