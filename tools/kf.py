#!/usr/bin/python3
"""maintenance of known_findings.json (used while building, never at check time):
   tools/kf.py fixed <property> <commit> <id> <what failed>"""
import json, sys
p = "/verif/known_findings.json"; d = json.load(open(p))
if sys.argv[1] == "fixed":
    _, _, prop, commit, fid, what = sys.argv
    d["findings"] = [f for f in d["findings"] if f["id"] != fid]
    d["findings"].append({"id": fid, "property": prop, "status": "fixed", "commit": commit, "what": what,
                          "line": "fixed: property=%s %s %s" % (prop, commit, what)})
json.dump(d, open(p, "w"), indent=1, ensure_ascii=False)
