# reproduce IntLiteral crash and print doc + change; try to minimise by line removal
import os, sys, random, re
from lsp import *
from splgen import *
exec(open("p7.py").read().split("crash_sites =")[0].split("def mutate")[0].split("stat = collections.Counter(); ex = {}")[1])
exec("def mutate" + open("p7.py").read().split("def mutate")[1].split("crash_sites =")[0])
def crashes(text, ch):
    s = Server()
    try:
        s.open("file:///m.spl", text); s.change("file:///m.spl", [ch])
        s.request("textDocument/formatting", {"textDocument": {"uri": "file:///m.spl"}, "options": {"tabSize": 4, "insertSpaces": True}})
        s.p.kill(); return False
    except (EOFError, TimeoutError) as e:
        return "IntLiteral must" in str(e)
found = 0
for seed in range(1000, 1400):
    rng = random.Random(seed)
    g, text = generate(seed); text = mutate(rng, text)
    lines = text.split("\n")
    for _ in range(25):
        l = rng.randrange(len(lines) + 2); c = rng.randrange(len(lines[l]) + 3) if l < len(lines) else rng.randrange(5); m = rng.choice(METHODS)
    cur = text
    import lspmodel
    for _ in range(3):
        l = rng.randrange(len(lines) + 1); c = rng.randrange(10); l2 = l + rng.choice([0, 0, 1]); c2 = c + rng.randrange(5)
        ch = {"range": {"start": {"line": l, "character": c}, "end": {"line": l2, "character": c2}}, "text": "".join(rng.choice(FRAGS) for _ in range(rng.randint(0, 3)))}
        if crashes(cur, ch):
            # minimise text by deleting lines not touched
            a = lspmodel.offset(cur, l, c); b = lspmodel.offset(cur, l2, c2)
            pre, mid, post = cur[:a], cur[a:b], cur[b:]
            # shrink prefix/suffix by chunks
            def test(pre, post):
                t = pre + mid + post; la, ca = lspmodel.position(t, len(pre)); lb, cb = lspmodel.position(t, len(pre) + len(mid))
                return crashes(t, {"range": {"start": {"line": la, "character": ca}, "end": {"line": lb, "character": cb}}, "text": ch["text"]})
            for _ in range(200):
                changed = False
                for n in (40, 10, 3, 1):
                    if len(post) >= n and test(pre, post[:-n]): post = post[:-n]; changed = True; break
                    if len(pre) >= n and test(pre[n:], post): pre = pre[n:]; changed = True; break
                    # remove from end of pre / start of post
                if not changed: break
            print("MIN", repr(pre), "|", repr(mid), "->", repr(ch["text"]), "|", repr(post))
            found += 1
            break
        cur = lspmodel.apply(cur, ch)
    if found >= 4: break
