#!/usr/bin/python3
"""Writes /verif/MANIFEST.json from the registry below (kept next to the checks so they cannot drift apart)."""
import json, os, subprocess
V = os.path.dirname(os.path.dirname(os.path.abspath(__file__)))
props = [json.loads(l) for l in open(os.path.join(V, "properties.jsonl"))]

REG = {
 "C06": dict(cat="exploration", technique="runtime monitoring: tiling invariant + reference-lexer oracle over generated and exhaustively enumerated texts",
   text="Every token sequence returned by the real lexer::lex is checked by a tiling monitor (order, no overlap, character boundaries, one EOF, white-space-only gaps) on random hostile Unicode strings and on all strings up to a small length; on lexically valid text kinds, values and ranges are compared with an independent reference lexer written from the lexical grammar. Held = no refuting event in the executions produced.",
   note="Trusted: the reference lexer (harness/reflex.py) as reading of the SPL lexical grammar; the adaptor only serialises lexer::lex output.", ref="5/C06"),
 "C07": dict(cat="exploration", technique="runtime monitoring: metamorphic oracle (batch lexer) + window-truthfulness equations, exhaustive over small texts and random chained histories",
   text="The real lexer::update is run on every text up to length L over an alphabet covering every look-ahead class, every byte range and every replacement up to length R (complete enumeration inside the stated bounds), and on random 50-step chains over generated programs; each result is compared with lexer::lex of the new text and the change window is checked against the two window equations (ranges and attached errors).",
   note="Trusted: lexer::lex as oracle for lexer::update (tied to the grammar by C06); enumeration bounds L<=3/4, R<=1/2 over 16 symbols.", ref="5/C07"),
 "C03": dict(cat="exploration", technique="runtime monitoring: ground truth by construction (well-typed generator + single-fault injectors) vs published diagnostics and errors()",
   text="Generated well-typed programs (any declaration order, nested arrays, ref parameters, nested control flow, random layouts/CRLF/comments) are opened in the built server and analysed through the library; a monitor demands zero diagnostics. 29 fault injectors (all 27 build/semantic message kinds, placed at any statement-list position/depth or declaration index) and 22 missing-token families each demand exactly the rule's message, on the offending construct, identical over LSP and errors(), every range inside the document.",
   note="Trusted: generator well-typedness and the message/construct templates written from the SPL rules in harness/checks/c03.py; missing-token faults limited to deletions that leave all declarations in place.", ref="5/C03"),
 "C04": dict(cat="exploration", technique="runtime monitoring: parser output compared with the generating derivation (reference by construction), exhaustive operator shapes",
   text="parser::parse(lexer::lex(text)) is dumped with absolute token ranges and compared node by node (kind, operator, literal value, identifier, is_ref, doc strings, token range) with the derivation the generator built the text from, under three layouts per program including a comment in every token gap; all 6 092 operator shapes (2-4 operands, all + - * / combinations, every parenthesised sub-range, unary minus, one comparison per slot) and dangling-else chains are enumerated completely; any syntax diagnostic is a violation.",
   note="Trusted: the generator's productions as the SPL grammar; the node-range rule stated in the property (node = its tokens + directly preceding comments; comments before a declaration are doc).", ref="5/C04"),
 "C05": dict(cat="exploration", technique="runtime monitoring: before/after differential oracle on sub-trees and table entries + extent monitor for syntax diagnostics under single-token damage",
   text="For generated valid programs with 2-8 global declarations, one token of one declaration is deleted, or a token of the SPL alphabet (without proc/type) is inserted/substituted; the real analysis of the damaged text is compared with the undamaged run: every other declaration's sub-tree (ranges relative to its first token, doc strings included) and table entry must be unchanged, every lex/parse-class diagnostic must lie inside the damaged declaration's extent, and hover on the other declarations' names must still answer (sampled over LSP).",
   note="Trusted: extents come from the generator; replacement identifiers are fresh (no redeclaration interactions); semantic diagnostics elsewhere are unconstrained, as the property says.", ref="5/C05"),
 "C01": dict(cat="exploration", technique="runtime monitoring: metamorphic oracle (fresh analysis of the same build) after every step of generated edit histories, at library and LSP level; tree invariants",
   text="Edit histories of 1-20 steps (1-4 changes per notification, each relative to its predecessor) are generated on the derivation of well-typed and ill-typed programs, so that source and result of every edit are syntactically valid; after every step the real AnalyzedSource::update result (tokens, syntax tree with attached diagnostics, symbol table, errors()) is compared by derived equality with AnalyzedSource::new of the same text, tree well-formedness invariants are checked, and at the LSP boundary the last publishDiagnostics and a request panel (semantic tokens, folding, formatting, hover/definition/references/typeDefinition/completion/signatureHelp at sampled positions) of the edited document are compared with a twin opened fresh. Step k+1 always starts from the updated state of step k.",
   note="Decided only on the valid<->valid edit sub-space stated in the evidence (coverage.sub_space); histories through syntactically broken states are replayed from committed witnesses only. Trusted: AnalyzedSource::new as reference.", ref="5/C01"),
 "C08": dict(cat="exploration", technique="runtime monitoring: reference LSP text model vs server text read through hook H1 after every notification; position round trips",
   text="Random open/change histories (ranged edits incl. zero-width, whole-line, multi-line, overshooting column/line; batches of 1-4 changes; full-text replacements) over documents with 1-4-byte characters, CR, LF, CRLF and empty lines are sent to the built server; after every notification the server's text (`$/verif/text`) must equal the text of an independent LSP position model, and identifier ranges reported by prepareRename must start at the client's position, cover the identifier, and address the same token when sent back (prepareRename, hover).",
   note="Trusted: harness/lspmodel.py as reading of the LSP 3.17 position rules. Positions inside surrogate pairs are not generated.", ref="5/C08"),
 "C12": dict(cat="exploration", technique="runtime monitoring: scoping oracle by construction of generated programs vs the four go-to requests of the built server",
   text="For generated well-typed programs (any declaration order, doc comments, equal local names in several procedures, locals hiding global procedures, all layouts) every sampled identifier occurrence is queried at its first/middle/last column with declaration, definition, typeDefinition and implementation; the answer must be exactly the name-token range of the binding known by construction (or null for predefined entities, int, anonymous array types, non-identifiers, white space, positions beyond the text); an error response or a dead server is a violation.",
   note="Trusted: bindings/types from harness/gen.py; LSP positions from harness/layout.py (UTF-16).", ref="5/C12"),
 "C13": dict(cat="exploration", technique="runtime monitoring: occurrence-set oracle by construction + independent edit applier + fresh twins for rename round trips",
   text="On generated well-typed programs (variables used in parentheses, after unary minus, in indices, as arguments, in conditions, as assignment targets; identifiers preceded by comments; names reused across procedures) every sampled identifier is queried with references, prepareRename and rename; results must be exactly the occurrences of the binding known by construction. For declared entities the rename is applied by an independent edit applier, the result is opened fresh (must stay free of diagnostics), references on the new name must return the same occurrence set and renaming back must restore the original text.",
   note="Trusted: bindings from the generator, harness/lspmodel.py edit applier. main and predefined entities are exempt from the apply part.", ref="5/C13"),
 "C14": dict(cat="exploration", technique="runtime monitoring: signature renderer over ground truth vs hover / signatureHelp responses at all call cursor positions",
   text="For generated well-typed programs every sampled identifier is hovered (first fenced line must be the signature rendered from ground truth: kind, name, ref marker, fully resolved type; doc comments in order; range = identifier) and every call is probed with signatureHelp after `(`, after each comma, before `)`, inside and at the end of each argument (label, one entry per parameter, activeParameter = number of commas before the cursor), including predefined callees and calls nested in blocks, branches and loops.",
   note="Trusted: generator ground truth; for predefined procedures only arity/ref/types are prescribed.", ref="5/C14"),
 "C15": dict(cat="exploration", technique="runtime monitoring: delta decoder + reference lexer + binding oracle over semanticTokens/full, on valid and hostile documents incl. after edits",
   text="The semantic token stream of generated well-typed programs (all layouts) and of hostile documents (token soup, mutated programs, non-ASCII; before and after an edit) is decoded against the legend announced by the same server run; a monitor demands strictly increasing, non-overlapping tokens that each start at and have the UTF-16 length of one lexical token, lexical classes for keywords/numbers/comments, and for valid programs the binding kind of every identifier with `declaration` exactly on declaring occurrences and no missing token.",
   note="Trusted: harness/reflex.py for lexical tokens, generator bindings.", ref="5/C15"),
 "C16": dict(cat="exploration", technique="runtime monitoring: scope/position oracle by construction over a product of position kinds x contexts x cursor placements; input-class keyed known findings",
   text="Cursor positions are built as (kind: statement start, after := / call( / if( / while(, after : in parameter/variable declarations, top-level gaps, BOF, EOF) x (context: after { ; }, depth, before closing brace, unbraced branch) x (placement: inside white space, touching next token, own line, touching previous token) with the layout around the cursor written by the harness; the proposal multiset (label, kind) must be exactly the enclosing procedure's variables / all procedures / all types + int / only declaration starters, and no response may propose a name local to another procedure. Two input classes are known findings (K-C16-1, K-C16-2) with committed witnesses; all other classes decide.",
   note="Keyword/snippet items ignored except for the top-level rule. Known findings are attributed only inside their input class and never excuse foreign locals.", ref="5/C16"),
 "C17": dict(cat="exploration", technique="runtime monitoring: extent oracle by construction vs foldingRange; well-formedness monitor on hostile documents",
   text="foldingRange of generated valid programs (doc comments, several procedures per line, CRLF, all layouts) must be exactly one range per procedure in source order from the line of `proc` to the line of its last token; on hostile documents every range must satisfy start <= end, lie inside the document and not overlap its predecessor.",
   note="Trusted: extents from the generator and the LSP line model.", ref="5/C17"),
 "C09": dict(cat="exploration", technique="runtime monitoring: independent edit applier + reference lexer + diagnostics of fresh twins over textDocument/formatting",
   text="Syntactically valid generated programs (well- and ill-typed, all layouts, CRLF, literal corner cases such as 007, 0x0a, triple quote, escaped newline, 2^32-1 and overflowing literals) are formatted under random options (spaces with tabSize 0..8, tabs); the monitor demands one edit covering exactly the whole document (or null), an identical sequence of non-comment tokens with kinds and literal values after applying it with an independent edit applier and re-lexing with the reference lexer, and identical diagnostics (message, culprit token) for the original and the formatted text opened fresh.",
   note="Trusted: harness/reflex.py, harness/lspmodel.py. Comments only in positions the formatter keeps (C10 covers comments).", ref="5/C09"),
 "C10": dict(cat="exploration", technique="runtime monitoring: unique-comment tracing through textDocument/formatting, exhaustive over grammar gap classes; input-class keyed known findings",
   text="Every comment body in a document is unique, so the monitor attributes each lost, duplicated, altered or reordered comment to the gap it was written in. Gap classes (comment-carrying construct, slot, context) are enumerated: for each generated program one single-comment run per class that occurs in it, plus programs with 1-10 comments in random gaps and after the last token. 34 losing classes are known findings K-C10-1..5 (committed witnesses, replayed first); in all other (about 75) classes the comment must survive exactly once, in order, with its text.",
   note="A known class only excuses the loss of the comment written in that gap; duplicates, text changes, reordering and losses elsewhere are violations.", ref="5/C10"),
 "C11": dict(cat="exploration", technique="runtime monitoring: metamorphic twins (second formatting pass, alternative layouts) + indentation-depth oracle from the derivation",
   text="Each generated program is rendered in three layouts (random/spaced, compact, one token per line; LF/CRLF) and formatted under one random option set: all three results must be identical, formatting the result again must answer null, every line must be indented with exactly unit^depth where depth is the nesting depth of the line's first token in the derivation, and null must be answered exactly when the text is already canonical.",
   note="Trusted: depth assignment in harness/fmt.py (braced bodies +1, unbraced branches +1, parameters broken onto lines +1).", ref="5/C11"),
}
NOT_YET = "check not yet built in this session (work in progress; see DESIGN.md section 5 for the planned monitor)"

def main():
    hooks_commits = subprocess.run(["git", "-C", "/repo", "log", "--format=%H %s"], capture_output=True, text=True).stdout.splitlines()
    src = [l.split()[0] for l in hooks_commits if "verif hooks" in l]
    checks = []; na = []
    for p in props:
        pid = p["id"]
        if pid in REG:
            r = REG[pid]
            checks.append({"property_id": pid, "quick_cmd": "./vcheck %s --tier quick" % pid, "thorough_cmd": "./vcheck %s --tier thorough" % pid,
                           "evidence_file": "/verif/evidence/%s.json" % pid, "replay_cmd_template": "./vcheck %s --replay {path}" % pid,
                           "engine": r.get("engine", "vcheck"), "technique": r["technique"],
                           "level_claimed": {"category": r["cat"], "text": r["text"], "design_ref": "DESIGN.md section " + r["ref"]},
                           "level_note": r["note"]})
        else:
            na.append({"property_id": pid, "reason": NOT_YET})
    m = {"version": 1,
         "setup_cmd": "./setup.sh",
         "hooks": {"guard": "cargo feature `verif` (lsp4spl/verif enables spl_frontend/verif)",
                   "enable": "cargo build --release -p lsp4spl --features verif (CARGO_TARGET_DIR=/verif/.work/target-srv); the adaptor crate /verif/adaptor depends on spl_frontend with features=[\"verif\"]",
                   "baseline_off_cmd": "cd /repo && cargo test --workspace --no-fail-fast --offline",
                   "source_commits": src, "add_only": True},
         "engines": [{"name": "vcheck", "path": "/verif/vcheck", "serves_properties": sorted(REG),
                      "kind_free_text": "Python 3 harness (generators, reference models, offline checkers over event logs) driving the built lsp4spl binary over stdio and the real spl_frontend library through the fe-adaptor crate; sanitizer builds attached in the thorough tier"}],
         "checks": checks,
         "not_applicable": na,
         "notes": "Exit codes: 0 held on everything explored; 1 with VIOLATION line(s); 2 INCONCLUSIVE (build failure, harness error, too few observations) and never a VIOLATION line. Known findings: /verif/known_findings.json."}
    json.dump(m, open(os.path.join(V, "MANIFEST.json"), "w"), indent=1)
    print("checks:", len(checks), "not_applicable:", len(na))
main()
