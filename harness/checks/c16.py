"""C16 — completion proposals respect scope and syntactic position.
Oracle: scopes and grammar positions known by construction.  A cursor position is (position kind, context, placement); the layout
around the cursor is written by the harness so that the placement is exact."""
import random
from ..core import Part, pmap, NCPU, server_bin
from ..client import ServerDied, Timeout, FrameError, tdp
from .. import gen, feat, layout

VARIABLE, FUNCTION, STRUCT, KEYWORD, SNIPPET = 6, 3, 22, 14, 15
PLACEMENTS = ["inside-ws", "touch-next", "own-line", "touch-prev"]


def sites(P):
    """(kind, context, prev token, next token or None, proc decl or None)"""
    out = []
    toks = P.toks
    def prev_of(t): return toks[t.idx - 1] if t.idx > 0 else None
    for proc, cont, depth in gen.stmt_lists(P):
        closing = cont.parts[-1]
        for i in range(len(cont.stmts) + 1):
            nxt = gen.first_tok(cont.stmts[i]) if i < len(cont.stmts) else closing
            if nxt.lead: continue
            pv = prev_of(nxt)
            if pv is None or pv.kind == "comment": continue
            ctx = {"{": "after{", ";": "after;", "}": "after}"}.get(pv.text)
            if ctx is None: continue
            out.append(("stmt", "%s/depth%d%s" % (ctx, min(depth, 3), "/before}" if nxt is closing else ""), pv, nxt, proc))
    for st, proc, parent, in_list, depth in P.statements():
        if not in_list and st.kind != "Block":
            nxt = gen.first_tok(st)
            if nxt.lead: continue
            pv = prev_of(nxt)
            out.append(("stmt", "unbraced-branch/after" + pv.text, pv, nxt, proc))
        if st.kind == "Assign":
            a = st.parts[1]; out.append(("expr", "after:=", a, toks[a.idx + 1], proc))
        elif st.kind == "Call":
            out.append(("expr", "after-call(", st.lparen, toks[st.lparen.idx + 1], proc))
        elif st.kind in ("If", "While"):
            lp = st.parts[1]; out.append(("expr", "after-%s(" % st.kind.lower(), lp, toks[lp.idx + 1], proc))
    # after the `(` of a parenthesised sub-expression anywhere inside a statement (conditions with several groups, arguments, right-hand sides)
    pm = feat.proc_of_tokens(P)
    for n in gen.walk_nodes(P.root):
        if n.kind == "Paren":
            lp = n.parts[0]
            if lp.uid in pm and toks[lp.idx + 1].kind != "comment": out.append(("expr", "after-inner(", lp, toks[lp.idx + 1], pm[lp.uid]))
    for p in P.procs:
        for q in p.params:
            c = [t for t in q.node.parts if isinstance(t, gen.Tok) and t.text == ":"][0]
            out.append(("type", "param:", c, toks[c.idx + 1], p))
        for v in p.locals:
            c = v.node.parts[2]; out.append(("type", "var:", c, toks[c.idx + 1], p))
    decls = P.root.parts
    for i in range(len(decls) + 1):
        nxt = gen.first_tok(decls[i]) if i < len(decls) else None
        if nxt is not None and nxt.lead: continue
        pv = gen.last_tok(decls[i - 1]) if i > 0 else None
        if nxt is None and P.trail: continue
        ctx = "bof" if pv is None else ("eof" if nxt is None else "between") + ("/after-proc" if decls[i - 1].kind == "ProcDecl" else "/after-type")
        out.append(("top", ctx, pv, nxt, None))
    return [s for s in out if s[3] is None or not s[3].lead]


def place(P, site, placement, eol):
    """rewrite the white space around the cursor; returns (text, cursor byte offset)"""
    kind, ctx, pv, nxt, proc = site
    toks = P.toks
    if nxt is not None:
        save = nxt.pre
        nxt.pre = {"inside-ws": "  ", "touch-next": " ", "touch-prev": " ", "own-line": eol + "    " + eol + "  "}[placement]
        if pv is None and placement == "touch-prev": nxt.pre = ""
        text = layout.render(toks, eol, final="")
        nxt.pre = save
        if placement == "inside-ws": off = nxt.start - 1
        elif placement == "touch-next": off = nxt.start
        elif placement == "touch-prev": off = pv.end if pv is not None else 0
        else: off = nxt.start - 2 - len(eol) - 0 - 2      # two columns into the blank line
    else:
        tail = {"inside-ws": "  ", "touch-next": " ", "touch-prev": "", "own-line": eol + "  "}[placement]
        text = layout.render(toks, eol, final=tail)
        off = len(text.encode()) - (1 if placement == "inside-ws" else 0)
    return text, off


def expected(P, site):
    kind, ctx, pv, nxt, proc = site
    allprocs = sorted([p.name for p in P.procs] + list(gen.BUILTINS))
    if kind == "stmt": return {VARIABLE: sorted(x.name for x in proc.params + proc.locals), FUNCTION: allprocs, STRUCT: None}
    if kind == "expr": return {VARIABLE: sorted(x.name for x in proc.params + proc.locals), FUNCTION: None, STRUCT: []}
    if kind == "type": return {VARIABLE: [], FUNCTION: [], STRUCT: sorted([t.name for t in P.types] + ["int"])}
    return {VARIABLE: [], FUNCTION: [], STRUCT: []}


def judge(res, exp, proc, P):
    """None if the answer is as expected, else a description"""
    if isinstance(res, dict) and "__error__" in res: return "error response %r" % (res,)
    items = res if isinstance(res, list) else (res or {}).get("items") if isinstance(res, dict) else None
    if res is None: items = None
    got = {}
    for it in items or []:
        got.setdefault(it.get("kind"), []).append(it.get("label"))
    # names local to another procedure are never proposed
    own = set(x.name for x in proc.params + proc.locals) if proc is not None else set()
    foreign = [n for n in got.get(VARIABLE, []) if n not in own]
    if foreign: return "proposes %r, which are not variables of the enclosing procedure" % foreign
    for k, name in ((VARIABLE, "variables"), (FUNCTION, "procedures"), (STRUCT, "types")):
        want = exp[k]
        if want is None: continue
        g = sorted(got.get(k, []))
        if g != want:
            if items is None: return "answers null; expected %s %r" % (name, want)
            return "proposes %s %r, expected exactly %r" % (name, g, want)
    if exp[FUNCTION] == [] and exp[VARIABLE] == [] and exp[STRUCT] == []:
        # outside any declaration: only declaration starters
        labels = sorted(set(it.get("label") for it in items or []))
        if not items or not set(labels) <= {"proc", "type", "main"} or "proc" not in labels or "type" not in labels:
            return "offers %r outside any declaration; expected only the declaration starters proc / type" % labels
    return None


def judge_foreign(res, owner):
    items = res if isinstance(res, list) else []
    own = set(x.name for x in owner.params + owner.locals) if owner is not None else set()
    foreign = [it.get("label") for it in items if it.get("kind") == VARIABLE and it.get("label") not in own]
    return ("proposes %r, which are not variables of the procedure at the cursor" % foreign) if foreign else None


def worker(args):
    seed, nprog, nsites, open_ids = args
    rng = random.Random("C16/%s" % seed)
    part = Part(); sess = feat.Session()
    for it in range(nprog):
        gs = rng.getrandbits(32)
        P = gen.generate(gs, size=rng.choice([1, 2, 3, 4]), depth=rng.choice([1, 2, 3]), edepth=2, stmt_comments=0.05, docs=.15)
        eol = rng.choice(["\n", "\n", "\r\n"])
        layout.layout(P, rng, rng.choice(["random", "spaced", "lines"]), eol)
        ss = sites(P)
        for site in (ss if len(ss) <= nsites else rng.sample(ss, nsites)):
            for placement in (PLACEMENTS if rng.random() < .5 else [rng.choice(PLACEMENTS)]):
                if site[2] is None and placement == "touch-prev": continue
                text, off = place(P, site, placement, eol)
                T = layout.Text(text); l, c = T.pos(off)
                cls = "%s/%s/%s" % (site[0], site[1], placement)
                sc = {"kind": "completion", "text": text, "line": l, "character": c, "class": cls, "expected": {str(k): v for k, v in expected(P, site).items()},
                      "own": sorted(x.name for x in site[4].params + site[4].locals) if site[4] else None}
                try:
                    uri = sess.open(text, "c16_")
                    res = sess.result("textDocument/completion", tdp(uri, l, c)); part.ev()
                    bad = judge(res, expected(P, site), site[4], P)
                    if bad is not None and placement == "touch-prev" and "K-C16-1" in open_ids:
                        # known class K-C16-1: a cursor touching the preceding token is treated as being *on* that token (null after `:` `:=` `(`,
                        # the touched procedure's statement proposals right after its closing `}`, ...). Never excused: names of a procedure
                        # other than the one the touched token belongs to.
                        owner = site[4]
                        if owner is None and site[2] is not None:
                            owner = next((p_ for p_ in P.procs if p_.rcurly is site[2]), None)
                        if judge_foreign(res, owner) is None:
                            part.known("K-C16-1", "cursor touching the preceding token is treated as being on that token"); part.add("known_classes_seen", cls); bad = None; res = "known"
                    if bad is not None and site[1].startswith("unbraced-branch") and "K-C16-2" in open_ids and "not variables of the enclosing" not in bad:
                        part.known("K-C16-2", "first statement of an unbraced branch: completion does not see a statement position"); part.add("known_classes_seen", cls); bad = None; res = "known"
                    sess.close(uri)
                    if bad is not None: part.fail("completion at %d:%d (%s) %s" % (l, c, cls, bad), sc)
                    elif res != "known":
                        part.see(cls); part.cnt("deciding_positions")
                        if len(part["samples"]) < 2: part.sample({"part": "completion", "class": cls, "line": l, "character": c, "context": text.encode()[max(0, off - 40):off + 20].decode(errors="replace")}, 2)
                except (ServerDied, Timeout, FrameError) as e:
                    feat.died(part, e, "completion request (%s)" % cls, sc, sess)
    feat.report(part)
    sess.kill()
    return part


def run(ctx):
    server_bin("rel")
    replay_witnesses(ctx)
    open_ids = set(f["id"] for f in ctx.open_findings())
    nprog, ns = (60, 20) if ctx.quick else (800, 40)
    for p in pmap(worker, [("%s/%d" % (ctx.seed, i), nprog, ns, open_ids) for i in range(NCPU)]): ctx.merge(p)
    ctx.rule = ("cursor positions = (kind: statement start | after := / call ( / if ( / while ( | after : of a parameter / variable declaration | top-level gap, beginning and end of file) x "
                "(context: after { ; }, nesting depth, before the closing }, first/middle/last declaration) x (placement: inside white space, touching the next token, own line, touching the "
                "previous token); proposals compared as multisets of (label, kind); distinct_nontrivial = distinct deciding (kind, context, placement) classes answered as expected")
    ctx.assumptions = ["scopes and grammar positions come from the generator", "keyword and snippet items are ignored except for the top-level rule; procedures after := / ( are neither required nor forbidden"]
    ctx.floor("evaluations", ctx.evaluations, 2000)
    ctx.floor("deciding positions", ctx.extra.get("counters", {}).get("deciding_positions", 0), 1200)


def eval_scenario(sess, sc):
    """failure description or None, for a stored completion scenario"""
    uri = sess.open(sc["text"], "c16r_")
    res = sess.result("textDocument/completion", tdp(uri, sc["line"], sc["character"]))
    sess.close(uri)
    got = {}
    for it in (res if isinstance(res, list) else []): got.setdefault(str(it.get("kind")), []).append(it.get("label"))
    if sc.get("own") is not None and [n for n in got.get(str(VARIABLE), []) if n not in sc["own"]]: return "proposes a name local to another procedure"
    for k, want in sc["expected"].items():
        if want is not None and sorted(got.get(k, [])) != want:
            return "completion (%s) proposes kind %s: %r, expected %r%s" % (sc["class"], k, sorted(got.get(k, [])), want, " (answer was null)" if res is None else "")
    return None


def replay_witnesses(ctx):
    sess = feat.Session()
    import json, os
    from ..core import VERIF
    for f in ctx.open_findings():
        w = json.load(open(os.path.join(VERIF, f["witness"])))
        try:
            bad = eval_scenario(sess, w["scenario"]); ctx.count()
        except (ServerDied, Timeout, FrameError) as e:
            bad = "server failed: %s" % e; sess.kill()
        if bad: ctx.known(f["id"], f["what"])
        else: ctx.extra.setdefault("witnesses_no_longer_failing", []).append(f["id"])
    sess.kill()


def replay(ctx, sc):
    part = Part(); sess = feat.Session()
    try:
        bad = eval_scenario(sess, sc); part.ev()
        if bad: part.fail(bad, sc)
    except (ServerDied, Timeout, FrameError) as e:
        feat.died(part, e, "replay", sc, sess)
    sess.kill(); ctx.merge(part); ctx.see(1); ctx.see(2)
