#!/usr/bin/python3
"""token-level delta debugging of a reduced C01 failure (text, single change): removes tokens outside the change
while the divergence persists.  Diagnosis tool, not part of any check."""
import json, sys
sys.path.insert(0, '/verif')
from harness.core import Adaptor
from harness import reflex, edits
sys.path.insert(0, '/verif/tools')
import c01min
ad = c01min.ad

def syntactically_valid(text):
    r = ad.call(op="analyze", text=text)
    return "errors" in r and not any(e[3] in ("parse", "lex") for e in r["errors"]) and not r["lex_errors"]

def fails(text, ch):
    if not syntactically_valid(text) or not syntactically_valid(edits.apply_change(text, ch)): return False
    r = ad.call(op="history", text=text, steps=[[ch]])
    return bool(r.get("div") or r.get("update_panic"))

def pieces(text, ch):
    """split text into [prefix tokens], changed region, [suffix tokens] as strings with following whitespace"""
    b = text.encode()
    def toks(seg):
        out = []; s = seg.decode()
        lx = reflex.lex(s); sb = seg
        for i, (k, v, a, e) in enumerate(lx[:-1]):
            nxt = lx[i + 1][2]
            out.append(sb[a:nxt].decode() if i + 1 < len(lx) - 1 else sb[a:].decode())
        if lx[:-1] and lx[0][2] > 0: out[0] = sb[:lx[0][2]].decode() + out[0]
        return out
    return toks(b[:ch[0]]), b[ch[0]:ch[1]].decode(), toks(b[ch[1]:])

def build(pre, mid, suf, new):
    p = "".join(pre); return p + mid + "".join(suf), [len(p.encode()), len(p.encode()) + len(mid.encode()), new]

def ddmin(text, ch):
    pre, mid, suf = pieces(text, ch)
    new = ch[2]
    assert fails(*build(pre, mid, suf, new)), "tokenised form does not fail"
    for which in (0, 1, 0, 1):
        lst = pre if which == 0 else suf
        n = 2
        while len(lst) >= 1:
            size = max(1, len(lst) // n); removed = False
            for i in range(0, len(lst), size):
                cand = lst[:i] + lst[i + size:]
                t, c = build(cand if which == 0 else pre, mid, cand if which == 1 else suf, new)
                if fails(t, c):
                    lst = cand
                    if which == 0: pre = lst
                    else: suf = lst
                    n = max(n - 1, 2); removed = True; break
            if not removed:
                if size == 1: break
                n = min(len(lst), n * 2)
    return build(pre, mid, suf, new)

if __name__ == "__main__":
    for f in sys.argv[1:]:
        d = json.load(open(f)); r = c01min.reduce(d["scenario"])
        if r is None: print(f, "does not fail"); continue
        text, batch, res = r
        if len(batch) != 1: print(f, "batch of", len(batch)); continue
        t, c = ddmin(text, batch[0])
        print("=====", f); print(json.dumps({"text": t, "change": c}, ensure_ascii=False))
        r = ad.call(op="history", text=t, steps=[[c]]); print("   ", json.dumps(r.get("div") or r.get("update_panic"))[:500])
