"""C12 — go-to declaration / definition / type definition / implementation hit the right name.
Oracle: the binding of every identifier occurrence, known by construction of the generated program (SPL scoping: parameters and
locals of the enclosing procedure before globals).  Observed at: the four go-to requests of the built server."""
import random
from ..core import Part, pmap, NCPU, server_bin
from ..client import ServerDied, Timeout, FrameError, tdp
from .. import gen, feat

METHODS = {"declaration": "textDocument/declaration", "definition": "textDocument/definition",
           "typeDefinition": "textDocument/typeDefinition", "implementation": "textDocument/implementation"}


def expected(T, tok, method):
    """expected result range (or None) for an identifier occurrence"""
    b = tok.bind
    if not isinstance(b, gen.Decl): return None            # predefined entity
    if method in ("declaration", "definition"): return feat.rng_of(T, b.name_tok)
    if method == "implementation": return feat.rng_of(T, b.name_tok) if b.kind == "proc" else None
    if b.kind == "type": return feat.rng_of(T, b.name_tok)
    if b.kind == "proc": return None
    return feat.rng_of(T, b.creator_type.name_tok) if b.creator_type is not None else None


def known_alternative(P, T, tk, m, pm, type_names):
    """(finding id, the answer the known defect produces) for the two known input classes, else None"""
    loc = feat.shadowing_local(P, tk, pm)
    if loc is not None:
        fake = gen.Tok("id", tk.text, role="use", bind=loc)
        return ("K-C12-1", expected(T, fake, m))
    b = tk.bind
    if m == "typeDefinition" and isinstance(b, gen.Decl) and b.kind in ("var", "param") and isinstance(b.ty, gen.ArrT) and b.creator_type is None and b.name in type_names:
        return ("K-C12-2", feat.rng_of(T, type_names[b.name].name_tok))
    return None


def check_doc(part, sess, P, text, T, rng, max_ids, open_ids=frozenset()):
    uri = sess.open(text, "c12_", prefer=feat.type_decl_spans(P, text))
    ids = feat.idents(P)
    pm = feat.proc_of_tokens(P); type_names = {t.name: t for t in P.types}
    sample = ids if len(ids) <= max_ids else rng.sample(ids, max_ids)
    queries = []
    for tk in sample:
        for (l, c) in feat.columns(rng, T, tk, rng.choice(["f", "m", "l", "fml"])):
            for m in METHODS:
                queries.append((m, l, c, expected(T, tk, m), "identifier %r (%s, bound to %s)" % (tk.text, tk.role, tk.bind.kind if isinstance(tk.bind, gen.Decl) else tk.bind),
                                (tk.bind.kind if isinstance(tk.bind, gen.Decl) else "predefined", tk.role), known_alternative(P, T, tk, m, pm, type_names)))
    # non-identifier positions: keywords, symbols, literals, comments, white space, beyond the text
    others = [t for t in P.toks if t.kind != "id"]
    for tk in rng.sample(others, min(len(others), max(2, len(sample) // 5))):
        l, c = T.pos(tk.start)
        for m in METHODS: queries.append((m, l, c, None, "%s token %r" % (tk.kind, tk.text[:12]), ("non-identifier", tk.kind), None))
    for tk in rng.sample(P.toks, min(3, len(P.toks))):
        if tk.pre and tk.start > 0:
            l, c = T.pos(tk.start - 1)
            if text.encode()[tk.start - 1:tk.start] in (b" ", b"\t"):
                for m in METHODS: queries.append((m, l, c, None, "white space", ("non-identifier", "ws"), None))
    queries.append(("declaration", T.nlines() + 5, 0, None, "line beyond the text", ("non-identifier", "beyond"), None))
    for m, l, c, exp, what, cls, alt in queries:
        sc = {"kind": "goto", "text": text, "method": m, "line": l, "character": c, "expected": exp, "what": what}
        res = sess.result(METHODS[m], tdp(uri, l, c))
        part.ev()
        got = None
        if isinstance(res, dict) and "__error__" in res:
            part.fail("%s on %s at %d:%d answers with an error: %r" % (m, what, l, c, res["__error__"]), sc); continue
        if res is not None:
            if not isinstance(res, dict) or res.get("uri") != uri:
                part.fail("%s on %s at %d:%d: malformed location %r" % (m, what, l, c, res), sc); continue
            got = res["range"]
        if got != exp and alt is not None and alt[0] in open_ids and got == alt[1]:
            part.known(alt[0], "known class"); part.add("known_classes_seen", "%s/%s" % (alt[0], m))
        elif got != exp:
            part.fail("%s on %s at %d:%d answers %r, expected %r" % (m, what, l, c, got, exp), sc)
        else:
            part.see((m,) + cls + (exp is not None,))
            if exp is not None: part.cnt("non_null_answers")
    sess.close(uri)


def worker(args):
    seed, nprog, max_ids, open_ids = args
    rng = random.Random("C12/%s" % seed)
    part = Part(); sess = feat.Session()
    for it in range(nprog):
        P, text, T = feat.program(rng)
        try:
            check_doc(part, sess, P, text, T, rng, max_ids, open_ids)
            if it == 0: part.sample({"part": "go-to", "text": text[:300], "identifiers": len(feat.idents(P))}, 1)
        except (ServerDied, Timeout, FrameError) as e:
            feat.died(part, e, "go-to request", {"kind": "doc", "text": text}, sess)
    feat.report(part)
    sess.kill()
    return part


def run(ctx):
    server_bin("rel")
    nprog, mi = (60, 25) if ctx.quick else (1500, 80)
    open_ids = frozenset(f["id"] for f in ctx.open_findings())
    replay_witnesses(ctx)
    for p in pmap(worker, [("%s/%d" % (ctx.seed, i), nprog, mi, open_ids) for i in range(NCPU)]): ctx.merge(p)
    ctx.rule = ("well-typed generated programs (any order of declarations, doc comments, same local names in several procedures, locals hiding global procedures); every sampled identifier "
                "occurrence x cursor column (first/middle/last) x the four go-to methods, plus non-identifier tokens, white space and positions beyond the text; "
                "distinct_nontrivial = distinct (method, binding kind, occurrence role, answer is a location) classes answered as expected")
    ctx.assumptions = ["bindings and types are known by construction of the generator (harness/gen.py)"]
    ctx.floor("evaluations", ctx.evaluations, 5000)
    ctx.floor("non-null answers", ctx.extra.get("counters", {}).get("non_null_answers", 0), 1000)


def replay_witnesses(ctx):
    import json, os
    from ..core import VERIF
    sess = feat.Session()
    for f in ctx.open_findings():
        w = json.load(open(os.path.join(VERIF, f["witness"])))["scenario"]
        try:
            uri = sess.open(w["text"], "c12w_")
            res = sess.result(METHODS[w["method"]], tdp(uri, w["line"], w["character"])); ctx.count(); sess.close(uri)
            got = res.get("range") if isinstance(res, dict) and "__error__" not in res else res
            if got != w["expected"]: ctx.known(f["id"], f["what"])
            else: ctx.extra.setdefault("witnesses_no_longer_failing", []).append(f["id"])
        except (ServerDied, Timeout, FrameError):
            ctx.known(f["id"], f["what"]); sess.kill()
    sess.kill()


def replay(ctx, sc):
    part = Part(); sess = feat.Session()
    try:
        uri = sess.open(sc["text"], "c12r_")
        if sc["kind"] == "goto":
            res = sess.result(METHODS[sc["method"]], tdp(uri, sc["line"], sc["character"])); part.ev()
            got = res.get("range") if isinstance(res, dict) and "__error__" not in res else res
            if got != sc["expected"]: part.fail("%s answers %r, expected %r" % (sc["method"], got, sc["expected"]), sc)
    except (ServerDied, Timeout, FrameError) as e:
        feat.died(part, e, "replay", sc, sess)
    sess.kill(); ctx.merge(part); ctx.see(1); ctx.see(2)
