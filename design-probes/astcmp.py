"""Probe for C04: compare parser::parse output (via Debug dump) with a reference parse of generator tokens."""
import re, subprocess, sys, random, collections
from splgen import *

TOK = re.compile(r'\s*(?:(?P<str>"(?:[^"\\]|\\.)*")|(?P<chr>\'(?:[^\'\\]|\\.)\')|(?P<num>\d+)|(?P<id>[A-Za-z_][A-Za-z0-9_]*)|(?P<dd>\.\.)|(?P<p>[{}()\[\],:]))')
def parse_debug(s):
    toks = []; pos = 0
    while True:
        m = TOK.match(s, pos)
        if not m: break
        toks.append((m.lastgroup, m.group(m.lastgroup))); pos = m.end()
    i = 0
    def val():
        nonlocal i
        k, v = toks[i]
        if k == "str": i += 1; return v[1:-1]
        if k == "chr": i += 1; return v
        if k == "num":
            i += 1
            if i < len(toks) and toks[i][0] == "dd":
                i += 1; b = int(toks[i][1]); i += 1; return ("range", int(v), b)
            return int(v)
        if k == "p" and v == "[":
            i += 1; out = []
            while toks[i][1] != "]":
                out.append(val())
                if toks[i][1] == ",": i += 1
            i += 1; return out
        if k == "id":
            name = v; i += 1
            if i < len(toks) and toks[i][1] == "{":
                i += 1; d = {"_": name}
                while toks[i][1] != "}":
                    fk = toks[i][1]; i += 2  # name :
                    d[fk] = val()
                    if toks[i][1] == ",": i += 1
                i += 1; return d
            if i < len(toks) and toks[i][1] == "(":
                i += 1; items = []
                while toks[i][1] != ")":
                    items.append(val())
                    if toks[i][1] == ",": i += 1
                i += 1
                if name == "Some": return items[0]
                return {"_": name, "args": items}
            if name == "None": return None
            return name
        raise Exception("unexpected %r at %d" % ((k, v), i))
    return val()

def flatten(node, base, out, errs):
    """preorder list of (kind, abs_start, abs_end, attr)"""
    if node is None: return
    if isinstance(node, list):
        for x in node: flatten(x, base, out, errs)
        return
    if not isinstance(node, dict): return
    n = node["_"]
    if n == "Reference":
        flatten(node["reference"], base + node["offset"], out, errs); return
    if "args" in node and len(node["args"]) == 1 and isinstance(node["args"][0], dict) and n in ("Procedure", "Type", "Assignment", "Call", "If", "While", "Block", "Binary", "Bracketed", "IntLiteral", "Unary", "Variable", "NamedVariable", "ArrayAccess", "NamedType"):
        inner = node["args"][0]
        if n in ("NamedVariable", "NamedType"):
            r = inner["info"]["range"]; out.append((n, base + r[1], base + r[2], inner["value"])); errs.extend(inner["info"]["errors"]); return
        flatten(inner, base, out, errs); return
    if n in ("Empty", "Error") and "args" in node:
        r = node["args"][0]["range"]; out.append((n, base + r[1], base + r[2], None)); errs.extend(node["args"][0]["errors"]); return
    info = node.get("info")
    attr = None
    if n == "BinaryExpression": attr = node["operator"]
    if n == "UnaryExpression": attr = node["operator"]
    if n == "IntLiteral": attr = node["value"]
    if n == "Identifier": attr = node["value"]
    if n in ("Valid",): attr = node.get("is_ref")
    if n in ("ProcedureDeclaration", "TypeDeclaration", "Valid"): attr = (attr, tuple(node.get("doc", [])))
    if info:
        r = info["range"]; out.append((n, base + r[1], base + r[2], attr)); errs.extend(info["errors"])
    for k, v in node.items():
        if k in ("_", "info", "operator", "value", "doc", "is_ref"): continue
        flatten(v, base, out, errs)

# ---------- reference parser over generator tokens (valid programs only)
class RP:
    def __init__(s, toks):
        s.all = toks; s.i = 0; s.out = []
    def skipc(s):
        while s.i < len(s.all) and s.all[s.i].kind == "comment": s.i += 1
    def peek(s, k=0):
        j = s.i; n = 0
        while j < len(s.all):
            if s.all[j].kind != "comment":
                if n == k: return s.all[j]
                n += 1
            j += 1
        return None
    def eat(s, text=None):
        s.skipc(); t = s.all[s.i]; assert text is None or t.text == text, (text, t.text, s.i); s.i += 1; return t
    def node(s, kind, start, attr=None):
        # reserve slot to keep preorder
        idx = len(s.out); s.out.append(None)
        return idx
    def program(s):
        while s.peek() is not None:
            if s.peek().text == "type": s.typedecl()
            else: s.procdecl()
        return s.out
    def docs(s):
        d = []
        j = s.i
        while s.all[j].kind == "comment": d.append(s.all[j].text[2:]); j += 1
        return tuple(d)
    def ident(s):
        st = s.i; t = s.eat(); s.out.append(("Identifier", st, s.i, t.text)); return t
    def intlit(s):
        st = s.i; t = s.eat(); s.out.append(("IntLiteral", st, s.i, t.role)); return t
    def typedecl(s):
        st = s.i; idx = len(s.out); s.out.append(None); d = s.docs()
        s.eat("type"); s.ident(); s.eat("="); s.typeexpr(); s.eat(";")
        s.out[idx] = ("TypeDeclaration", st, s.i, (None, d))
    def typeexpr(s):
        if s.peek().text == "array":
            st = s.i; idx = len(s.out); s.out.append(None)
            s.eat("array"); s.eat("["); s.intlit(); s.eat("]"); s.eat("of"); s.typeexpr()
            s.out[idx] = ("ArrayType", st, s.i, None)
        else:
            st = s.i; t = s.eat(); s.out.append(("NamedType", st, s.i, t.text))
    def procdecl(s):
        st = s.i; idx = len(s.out); s.out.append(None); d = s.docs()
        s.eat("proc"); s.ident(); s.eat("(")
        while s.peek().text != ")":
            pst = s.i; pidx = len(s.out); s.out.append(None); pd = s.docs()
            isref = False
            if s.peek().text == "ref": s.eat("ref"); isref = True
            s.ident(); s.eat(":"); s.typeexpr()
            s.out[pidx] = ("Valid", pst, s.i, (isref, pd))
            if s.peek().text == ",": s.eat(",")
        s.eat(")"); s.eat("{")
        while s.peek().text == "var":
            vst = s.i; vidx = len(s.out); s.out.append(None); vd = s.docs()
            s.eat("var"); s.ident(); s.eat(":"); s.typeexpr(); s.eat(";")
            s.out[vidx] = ("Valid", vst, s.i, (None, vd))
        while s.peek().text != "}": s.stmt()
        s.eat("}")
        s.out[idx] = ("ProcedureDeclaration", st, s.i, (None, d))
    def stmt(s):
        st = s.i; t = s.peek(); idx = len(s.out); s.out.append(None)
        if t.text == ";": s.eat(";"); s.out[idx] = ("Empty", st, s.i, None)
        elif t.text == "if":
            s.eat("if"); s.eat("("); s.expr(); s.eat(")"); s.stmt()
            if s.peek() is not None and s.peek().text == "else": s.eat("else"); s.stmt()
            s.out[idx] = ("IfStatement", st, s.i, None)
        elif t.text == "while":
            s.eat("while"); s.eat("("); s.expr(); s.eat(")"); s.stmt(); s.out[idx] = ("WhileStatement", st, s.i, None)
        elif t.text == "{":
            s.eat("{")
            while s.peek().text != "}": s.stmt()
            s.eat("}"); s.out[idx] = ("BlockStatement", st, s.i, None)
        elif s.peek(1).text == "(":
            s.ident(); s.eat("(")
            while s.peek().text != ")":
                s.expr()
                if s.peek().text == ",": s.eat(",")
            s.eat(")"); s.eat(";"); s.out[idx] = ("CallStatement", st, s.i, None)
        else:
            s.variable(); s.eat(":="); s.expr(); s.eat(";"); s.out[idx] = ("Assignment", st, s.i, None)
    def variable(s):
        st = s.i; at = len(s.out)
        t = s.eat(); s.out.append(("NamedVariable", st, s.i, t.text))
        while s.peek().text == "[":
            s.eat("["); s.expr(); s.eat("]")
            s.out.insert(at, ("ArrayAccess", st, s.i, None))
    OPS = {"+": "Add", "-": "Sub", "*": "Mul", "/": "Div", "=": "Equ", "#": "Neq", "<": "Lst", "<=": "Lse", ">": "Grt", ">=": "Gre"}
    def expr(s):
        st = s.i; at = len(s.out)
        s.add()
        if s.peek().text in ("=", "#", "<", "<=", ">", ">="):
            op = s.eat().text; s.add(); s.out.insert(at, ("BinaryExpression", st, s.i, s.OPS[op]))
    def add(s):
        st = s.i; at = len(s.out); s.mul()
        while s.peek().text in ("+", "-"):
            op = s.eat().text; s.mul(); s.out.insert(at, ("BinaryExpression", st, s.i, s.OPS[op]))
    def mul(s):
        st = s.i; at = len(s.out); s.factor()
        while s.peek().text in ("*", "/"):
            op = s.eat().text; s.factor(); s.out.insert(at, ("BinaryExpression", st, s.i, s.OPS[op]))
    def factor(s):
        t = s.peek(); st = s.i
        if t.text == "-":
            idx = len(s.out); s.out.append(None); s.eat("-"); s.factor(); s.out[idx] = ("UnaryExpression", st, s.i, "Sub")
        elif t.text == "(":
            idx = len(s.out); s.out.append(None); s.eat("("); s.expr(); s.eat(")"); s.out[idx] = ("BracketedExpression", st, s.i, None)
        elif t.kind == "int": s.intlit()
        else: s.variable()

if __name__ == "__main__":
    N = int(sys.argv[1]); base = int(sys.argv[2]) if len(sys.argv) > 2 else 0
    progs = []
    for seed in range(base, base + N):
        rng = random.Random(seed)
        g = Gen(rng, depth=3).program()
        # sprinkle comments in random gaps
        toks = list(g.toks)
        if seed % 2:
            for _ in range(rng.randint(0, 8)):
                k = rng.randrange(len(toks) + 1); toks.insert(k, Tok("comment", "// gap %d" % rng.randint(0, 99)))
        text = layout(toks, random.Random(seed))
        progs.append((seed, toks, text))
    p = subprocess.run(["/tmp/probe/fe/target/release/astdbg"], input=b"\0".join(t.encode() for _, _, t in progs), capture_output=True)
    dumps = p.stdout.decode().split("\x01")
    bad = 0; kinds = collections.Counter()
    for (seed, toks, text), d in zip(progs, dumps):
        tree = parse_debug(d)
        got = []; errs = []
        flatten(tree["global_declarations"], 0, got, errs)
        # doc strings: Debug-escaped; compare loosely -> drop docs content, keep count
        def norm(x):
            k, a, b, at = x
            if isinstance(at, tuple): at = ({"true": True, "false": False}.get(at[0], at[0]), len(at[1]))
            return (k, a, b, at)
        exp = [norm(x) for x in RP(toks).program()]
        got = [norm(x) for x in got]
        for x in got: kinds[x[0]] += 1
        if got != exp or errs:
            bad += 1
            if bad <= 3:
                print("SEED", seed, "errs", errs[:2])
                for a, b in zip(got, exp):
                    if a != b: print("  first diff got", a, "exp", b, [t.text for t in toks[min(a[1], b[1]):max(a[2], b[2])]]); break
                else: print("  length", len(got), len(exp))
    print("programs", N, "mismatch", bad, dict(kinds))
