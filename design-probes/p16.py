from lsp import *
from splgen import *
import random, collections
exec(open("p7.py").read().split("crash_sites =")[0].split("stat = ")[1].split("\n",1)[1]) if False else None
FRAGS = ["proc ", "type ", "var ", "if ", "else ", "while ", "array ", "of ", "ref ", "int", "x", "main", "printi", "(", ")", "[", "]", "{", "}", ";", ":", ":=", "=", "#", "<", "<=", "+", "-", "*", "/", ",", "0", "12", "0x1F", "0x", "'a'", "'", "'\\n'", "// c\n", "//", " ", "\n", "ä", "€", "😀", "_", "\r\n", "\t"]
def mutate(rng, text):
    if rng.random() < .2: return "".join(rng.choice(FRAGS) for _ in range(rng.randint(0, 40)))
    t = text
    for _ in range(rng.randint(1, 4)):
        a = rng.randrange(len(t) + 1); b = min(len(t), a + rng.choice([0, 0, 1, 2, 5, 30]))
        t = t[:a] + "".join(rng.choice(FRAGS) for _ in range(rng.randint(0, 3))) + t[b:]
    return t
S = Server(); bad = collections.Counter(); ex = {}
for seed in range(600):
    rng = random.Random(seed); g, text = generate(seed); text = mutate(rng, text)
    uri = "file:///s.spl"; S.open(uri, text)
    r = S.request("textDocument/semanticTokens/full", {"textDocument": {"uri": uri}})["result"]["data"]
    line = col = 0; prev = (-1, -1); ok = True; why = None
    lines = text.split("\n")
    for i in range(0, len(r), 5):
        dl, ds, ln, ty, mod = r[i:i+5]
        if dl: line += dl; col = ds
        else: col += ds
        if (line, col) <= prev and i: ok = False; why = "not increasing"
        if line >= len(lines) and ln: ok = False; why = "line outside doc"
        if dl > 10**6 or ds > 10**6: ok = False; why = "wrapped delta"
        prev = (line, col)
    if not ok:
        bad[why] += 1; ex.setdefault(why, (seed, text[:200]))
    f = S.request("textDocument/foldingRange", {"textDocument": {"uri": uri}})["result"]
    for x in f:
        if x["startLine"] > x["endLine"] or x["endLine"] >= len(lines) + 0: bad["fold malformed"] += 1; ex.setdefault("fold malformed", (seed, x, len(lines)))
    if any(f[i]["endLine"] > f[i+1]["startLine"] for i in range(len(f) - 1)): bad["fold overlap"] += 1; ex.setdefault("fold overlap", (seed, f, text[:300]))
print(dict(bad)); print(ex)
