"""hostile document generators shared by C02, C15, C17"""
import random
from .. import gen, layout, lspmodel

LEXEMES = ["proc", "type", "var", "if", "else", "while", "array", "of", "ref", "int", "main", "x", "y1", "_a", "foo", "printi", "(", ")", "[", "]", "{", "}", ";", ":", ":=", "=", "#",
           "<", "<=", ">", ">=", "+", "-", "*", "/", ",", "0", "12", "007", "4294967295", "4294967296", "99999999999999999999", "0x1F", "0x", "0xFFFFFFFFF", "'a'", "'", "''", "'''",
           "'\\n'", "'\\", "// c\n", "//", "// ü€😀\n", "é", "€", "😀", "ł", "\\", "\"", "@", "\x00", "_", "1x", "x1", "\x0c", "\xa0", "\u2028", "\ufeff"]
SEPS = [" ", " ", " ", "\n", "\n", "\r\n", "\t", "", "", "  ", "\r", "\n\n"]


def soup(rng, n):
    return "".join(rng.choice(LEXEMES) + rng.choice(SEPS) for _ in range(n))


def nested(rng):
    d = rng.randint(5, 40)
    body = "x := " + "(" * d + "1" + ")" * rng.choice([d, d - 1, 0]) + ";"
    blocks = "{" * d + body + "}" * rng.choice([d, d - 2, 0])
    ifs = "".join("if (x < %d) " % i for i in range(d)) + "x := 1;" + " else x := 2;" * rng.randint(0, d)
    return "proc main() { var x: int; var a: array [2] of array [2] of int; %s %s %s a%s := 1; }" % (blocks, ifs, "while (1 < 2) " * d + ";", "[0]" * d)


KEYWORDS = {"proc", "type", "var", "if", "else", "while", "array", "of", "ref", "int"}


def clash(rng):
    """a syntactically valid program whose names collide: 1-3 identifiers are merged into others everywhere (redeclared procedures and
    types, locals and parameters named like globals or like each other), and half of the time a shortened copy of a procedure
    (same name, same parameters, empty or one-line body) or of a type declaration is appended as the last declaration of the file"""
    import re
    P = gen.generate(rng.getrandbits(32), size=rng.choice([1, 2, 3, 4]), depth=rng.choice([1, 2]), typed=rng.random() < .7)
    text = layout.layout(P, rng, rng.choice(["random", "spaced", "lines"]), rng.choice(["\n", "\r\n", "\n"]))
    for _ in range(rng.randint(0, 3)):
        words = sorted(set(re.findall(r"(?<![\w'])[A-Za-z_]\w*", re.sub(r"//[^\n]*", "", text))) - KEYWORDS)
        if len(words) < 2: break
        a, b = rng.sample(words, 2)
        text = re.sub(r"(?<![\w'])%s(?!\w)" % re.escape(a), b, text)
    if rng.random() < .6:
        heads = re.findall(r"proc\s+\w+\s*\([^)]*\)", re.sub(r"//[^\n]*", "", text))
        types = re.findall(r"type\s+\w+\s*=[^;]*;", re.sub(r"//[^\n]*", "", text))
        if heads and (not types or rng.random() < .7):
            stripped = re.sub(r"//[^\n]*", "", text)
            h = rng.choice(heads)
            i = stripped.find(h); j = stripped.find("proc", i + 4); seg = stripped[i:j if j > 0 else len(stripped)]
            names = re.findall(r"var\s+(\w+)", seg) + re.findall(r"(?:\(|,)\s*(?:ref\s+)?(\w+)\s*:", h)
            name = re.match(r"proc\s+(\w+)", h).group(1)
            v = rng.choice(names) if names else "x"
            body = rng.choice(["", " %s := 1; " % v, " %s := %s; " % (v, rng.choice(names) if names else "1"), " var q: int; q := %s; " % v, " %s(%s); " % (name, v)])
            head = h if rng.random() < .5 else "proc %s()" % name
            text = text.rstrip() + "\n" + head + " {" + body + "}" + rng.choice(["", "\n"])
        elif types:
            t = rng.choice(types)
            if rng.random() < .5: t = re.sub(r"type\s+(\w+)", lambda mm: "proc %s()" % mm.group(1), t.split("=")[0]) + " { }"
            text = text.rstrip() + "\n" + t + rng.choice(["", "\n"])
    return text


def hostile_text(rng):
    t = _hostile_text(rng)
    if rng.random() < .06: t = "\ufeff" + t          # a byte order mark at the start of the document
    return t


def _hostile_text(rng):
    c = rng.random()
    if c < .3: return soup(rng, rng.choice([0, 1, 3, 10, 40, 150]))
    if c < .38: return nested(rng)
    if c < .5: return clash(rng)
    # a valid program with 1-4 random splices
    P = gen.generate(rng.getrandbits(32), size=rng.choice([1, 2, 4]), depth=rng.choice([1, 2, 3]), typed=rng.random() < .7)
    text = layout.layout(P, rng, rng.choice(["random", "spaced", "lines"]), rng.choice(["\n", "\r\n", "\n"]))
    for _ in range(rng.randint(1, 4)):
        cps = len(text)
        a = rng.randint(0, cps); b = min(cps, a + rng.choice([0, 0, 1, 2, 5, 30]))
        text = text[:a] + soup(rng, rng.choice([0, 1, 1, 2, 4])) + text[b:]
    return text


def random_lsp_change(rng, text, overshoot=.15):
    """(change, new text) — ranged change valid under the LSP model, sometimes with overshooting positions"""
    spans = lspmodel.line_spans(text)
    def pos():
        line = rng.randrange(len(spans) + (1 if rng.random() < overshoot else 0))
        if line >= len(spans): return {"line": line + rng.choice([0, 7]), "character": rng.choice([0, 5])}
        a, e, _ = spans[line]
        k = rng.randint(0, e - a)
        col = sum(2 if ord(ch) > 0xFFFF else 1 for ch in text[a:a + k])
        if rng.random() < overshoot: col += rng.choice([1, 10, 100000])
        return {"line": line, "character": col}
    p, q = pos(), pos()
    if rng.random() < .3: q = dict(p)
    a = lspmodel.offset(text, p["line"], p["character"], spans); b = lspmodel.offset(text, q["line"], q["character"], spans)
    if b < a: p, q = q, p
    if (p["line"], p["character"]) > (q["line"], q["character"]): q = dict(p)
    ch = {"range": {"start": p, "end": q}, "text": soup(rng, rng.choice([0, 1, 1, 2, 3]))}
    return ch, lspmodel.apply_change(text, ch)
