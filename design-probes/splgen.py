"""Probe-quality generator of well-typed SPL programs with ground truth.
Tokens are (kind, text, meta) triples; layout turns them into text and records byte ranges."""
import random

KEYWORDS = {"if", "else", "while", "array", "of", "proc", "ref", "type", "var"}
BUILTINS = {"printi": [("i", False)], "printc": [("i", False)], "readi": [("i", True)], "readc": [("i", True)],
            "exit": [], "time": [("i", True)], "clearAll": [("color", False)], "setPixel": [("x", False), ("y", False), ("z", False)],
            "drawLine": [("x1", False)] * 5, "drawCircle": [("x0", False)] * 4}

class Ty:
    pass
class IntT(Ty):
    def __eq__(s, o): return isinstance(o, IntT)
    def __hash__(s): return 1
    def show(s): return "int"
class ArrT(Ty):
    def __init__(s, size, base, creator): s.size, s.base, s.creator = size, base, creator
    def __eq__(s, o): return isinstance(o, ArrT) and s.creator == o.creator and s.size == o.size and s.base == o.base
    def __hash__(s): return hash(s.creator)
    def show(s): return "array [%d] of %s" % (s.size, s.base.show())
INT = IntT()

class Tok:
    __slots__ = ("kind", "text", "role", "bind", "start", "end", "idx", "node")
    def __init__(s, kind, text, role=None, bind=None):
        s.kind, s.text, s.role, s.bind = kind, text, role, bind
        s.start = s.end = s.idx = None; s.node = None
    def __repr__(s): return "%s:%r" % (s.kind, s.text)

class Decl:
    def __init__(s, kind, name, ty=None, is_ref=False, proc=None):
        s.kind, s.name, s.ty, s.is_ref, s.proc = kind, name, ty, is_ref, proc
        s.name_tok = None; s.first_tok = None; s.last_tok = None; s.params = []; s.locals = []; s.doc = []
        s.type_name = None  # name of the named type used directly (for type definition)

class Gen:
    def __init__(s, rng, size=3, depth=2, allow=None):
        s.r = rng; s.size = size; s.depth = depth
        s.toks = []; s.types = []; s.procs = []; s.n = 0
        s.calls = []   # (name_tok, lparen_tok, rparen_tok, [comma toks], callee decl or builtin name)
        s.stmt_starts = []  # (tok index of first token of statement, proc)
        s.allow = allow or {}

    def t(s, kind, text, role=None, bind=None):
        tk = Tok(kind, text, role, bind); tk.idx = len(s.toks); s.toks.append(tk)
        if kind != "comment" and getattr(s, "ctx", None):
            top = s.ctx[-1]; tk.node = (top[0], top[1], s.ctx[-2][0] if len(s.ctx) > 1 else "program"); top[1] += 1
            # a nested production also advances the slot of its parents only once (when it starts)
        return tk
    def push(s, name):
        if not hasattr(s, "ctx"): s.ctx = []
        s.ctx.append([name, 0])
    def pop(s):
        s.ctx.pop()
        if s.ctx: s.ctx[-1][1] += 1
    def kw(s, w): return s.t("kw", w)
    def sym(s, w): return s.t("sym", w)
    def fresh(s, prefix):
        s.n += 1; return "%s%d" % (prefix, s.n)

    def gen_type_expr(s, creator, depth=0):
        s.push('typeexpr')
        try: return s._gen_type_expr(creator, depth)
        finally: s.pop()
    def _gen_type_expr(s, creator, depth=0):
        """emit tokens for a type expression; return (Ty, type_name_decl or None)"""
        r = s.r
        choices = ["int"]
        if s.types: choices += ["named", "named"]
        if depth < 2: choices += ["array"]
        c = r.choice(choices)
        if c == "int":
            s.t("id", "int", role="use", bind="builtin:int"); return INT, None
        if c == "named":
            d = r.choice(s.types); s.t("id", d.name, role="use", bind=d); return d.ty, d
        s.kw("array"); s.sym("["); n = r.randint(1, 9); s.t("int", str(n) if r.random() < .7 else "0x%X" % n, role=n); s.sym("]"); s.kw("of")
        base, _ = s.gen_type_expr(creator, depth + 1)
        return ArrT(n, base, creator), None

    def intlit(s, n=None):
        r = s.r
        if n is None: n = r.randint(0, 300)
        form = r.choice(["dec", "dec", "dec", "hex", "char"]) if s.allow.get("lits", True) else "dec"
        if form == "dec": return s.t("int", str(n), role=n)
        if form == "hex": return s.t("int", "0x%X" % n if r.random() < .5 else "0x%x" % n, role=n)
        ch = r.choice("abcXYZ09 +#")
        return s.t("int", "'%s'" % ch, role=ord(ch))

    def program(s):
        r = s.r
        ntypes = r.randint(0, s.size); nprocs = r.randint(1, s.size + 1)
        order = ["type"] * ntypes + ["proc"] * nprocs
        r.shuffle(order)
        # predeclare procedure signatures so calls can go forward: generate lazily instead -> two passes: first decide signatures
        sigs = []
        main_at = r.randrange(nprocs)
        s.pending = []
        pi = 0
        for what in order:
            if what == "type":
                s.type_decl()
            else:
                s.proc_decl("main" if pi == main_at else s.fresh("p"), is_main=(pi == main_at)); pi += 1
        return s

    def doc(s, d):
        if s.allow.get("doc", True) and s.r.random() < .3:
            for _ in range(s.r.randint(1, 2)):
                tk = s.t("comment", "// " + s.r.choice(["doc", "describes it", "näme ünicode", "x := 1;"]) + " " + str(s.r.randint(0, 99)))
                d.doc.append(tk)
                if d.first_tok is None: d.first_tok = tk

    def type_decl(s):
        s.push('typedecl')
        try: return s._type_decl()
        finally: s.pop()
    def _type_decl(s):
        name = s.fresh("T")
        d = Decl("type", name)
        s.doc(d)
        k = s.kw("type");
        if d.first_tok is None: d.first_tok = k
        d.kw_tok = k
        d.name_tok = s.t("id", name, role="decl", bind=d)
        s.sym("=")
        d.ty, d.type_name = s.gen_type_expr(name)
        d.last_tok = s.sym(";")
        s.types.append(d)

    def proc_decl(s, name, is_main):
        r = s.r
        d = Decl("proc", name)
        s.push("prochead")
        s.doc(d)
        k = s.kw("proc")
        if d.first_tok is None: d.first_tok = k
        d.kw_tok = k
        d.name_tok = s.t("id", name, role="decl", bind=d)
        s.sym("(")
        names = set()
        def lname(prefix):
            # reuse a small pool of names across procedures
            for _ in range(20):
                n = r.choice(["i", "j", "k", "n", "tmp", "acc", "arr", "idx", "val"]) + r.choice(["", "", "1", "2"])
                if n not in names: names.add(n); return n
            n = s.fresh(prefix); names.add(n); return n
        if not is_main:
            np = r.randint(0, 3)
            for i in range(np):
                if i: s.sym(",")
                pname = lname("a")
                s.push("param")
                p = Decl("param", pname, proc=d)
                # decide type first to know ref
                save = len(s.toks)
                want_ref = r.random() < .4
                first = s.kw("ref") if want_ref else None
                p.name_tok = s.t("id", pname, role="decl", bind=p)
                s.sym(":")
                ty, tn = s.gen_type_expr(pname)
                if isinstance(ty, ArrT) and not want_ref:
                    # must be ref: rewrite
                    del s.toks[save:]
                    for j, tk in enumerate(s.toks): tk.idx = j
                    first = s.kw("ref")
                    p.name_tok = s.t("id", pname, role="decl", bind=p)
                    s.sym(":")
                    st = r.getstate()
                    ty, tn = s.gen_type_expr(pname)
                    want_ref = True
                p.ty, p.type_name, p.is_ref = ty, tn, want_ref
                p.first_tok = first or p.name_tok; p.last_tok = s.toks[-1]
                d.params.append(p)
                s.pop()
        s.sym(")"); d.lcurly = s.sym("{")
        s.pop(); s.push("procbody")
        nv = r.randint(0, 3)
        for i in range(nv):
            vname = lname("v")
            v = Decl("var", vname, proc=d)
            s.push("vardecl")
            s.doc(v)
            k = s.kw("var")
            if v.first_tok is None: v.first_tok = k
            v.name_tok = s.t("id", vname, role="decl", bind=v)
            s.sym(":")
            v.ty, v.type_name = s.gen_type_expr(vname)
            v.last_tok = s.sym(";")
            d.locals.append(v)
            s.pop()
        s.procs.append(d)
        s.cur = d
        d.body_first = len(s.toks)
        for _ in range(r.randint(0, s.size)):
            s.stmt(s.depth)
        d.last_tok = s.sym("}")
        s.pop()

    # ---- expressions
    def scope_vars(s): return s.cur.params + s.cur.locals
    def int_lvalues(s):
        """list of (decl, path depth) that can be indexed down to int"""
        out = []
        for v in s.scope_vars():
            ty = v.ty; k = 0
            while isinstance(ty, ArrT): ty = ty.base; k += 1
            out.append((v, k))
        return out
    def variable_int(s, depth):
        """emit a variable expression of type int; return True if emitted"""
        c = s.int_lvalues()
        if depth <= 0: c = [x for x in c if x[1] == 0]
        if not c: return False
        v, k = s.r.choice(c)
        s.t("id", v.name, role="use", bind=v)
        ty = v.ty
        for _ in range(k):
            s.sym("["); s.expr(depth - 1); s.sym("]")
        return True
    def variable_of(s, want):
        """emit variable expr of exactly type `want` (possibly by indexing); return bool"""
        c = []
        for v in s.scope_vars():
            ty = v.ty; k = 0
            while True:
                if ty == want: c.append((v, k)); break
                if isinstance(ty, ArrT): ty = ty.base; k += 1
                else: break
        if not c: return False
        v, k = s.r.choice(c)
        s.t("id", v.name, role="use", bind=v)
        for _ in range(k):
            s.sym("["); s.expr(0); s.sym("]")
        return True
    def expr(s, depth):
        s.push('expr')
        try: return s._expr(depth)
        finally: s.pop()
    def _expr(s, depth):
        r = s.r
        c = r.random()
        if depth <= 0 or c < .3:
            if r.random() < .5 and s.variable_int(depth): return
            s.intlit(); return
        if c < .4 and s.allow.get("paren", True):
            s.sym("("); s.expr(depth - 1); s.sym(")"); return
        if c < .5 and s.allow.get("unary", True):
            s.sym("-"); s.factor(depth - 1); return
        s.expr(depth - 1); s.sym(r.choice("+-*/")); s.factor(depth - 1)
    def factor(s, depth):
        s.push('expr')
        try: return s._factor(depth)
        finally: s.pop()
    def _factor(s, depth):
        r = s.r
        if r.random() < .5 and s.variable_int(depth): return
        if r.random() < .3 and s.allow.get("paren", True):
            s.sym("("); s.expr(depth - 1); s.sym(")"); return
        s.intlit()
    def cond(s):
        s.push('cond')
        try: return s._cond()
        finally: s.pop()
    def _cond(s):
        s.expr(1); s.sym(s.r.choice(["=", "#", "<", "<=", ">", ">="])); s.expr(1)

    # ---- statements
    def stmt(s, depth):
        r = s.r
        first = len(s.toks)
        s.stmt_starts.append((first, s.cur))
        if s.allow.get("stmt_comments", True) and r.random() < .1:
            s.t("comment", "// stmt note %d" % r.randint(0, 99))
        kinds = ["assign", "assign", "call", "call", "empty"]
        if depth > 0: kinds += ["if", "ifelse", "while", "block", "if_noblock"]
        k = r.choice(kinds)
        s.push("stmt:" + k)
        try: s._stmt_body(k, depth)
        finally: s.pop()
    def _stmt_body(s, k, depth):
        r = s.r
        if k == "assign":
            if not s.variable_int(1): s.sym(";"); return
            s.sym(":="); s.expr(2); s.sym(";")
        elif k == "empty":
            s.sym(";")
        elif k == "call":
            # choose callee: declared proc (any, incl. later ones unknown yet -> only earlier or self) or builtin
            cands = [p for p in s.procs if p.name != "main" or True]
            use_builtin = r.random() < .3 or not cands
            if use_builtin:
                name = r.choice(list(BUILTINS)); params = [(INT, isref) for (_, isref) in BUILTINS[name]]; callee = "builtin:" + name
            else:
                p = r.choice(cands); name = p.name; params = [(q.ty, q.is_ref) for q in p.params]; callee = p
            # check feasibility of ref/array args
            save = len(s.toks)
            ntok = s.t("id", name, role="use", bind=callee)
            lp = s.sym("("); commas = []; ok = True
            for i, (ty, isref) in enumerate(params):
                if i: commas.append(s.sym(","))
                if isref or isinstance(ty, ArrT):
                    if not s.variable_of(ty): ok = False; break
                else:
                    s.expr(2)
            if not ok:
                del s.toks[save:]; s.sym(";"); return
            rp = s.sym(")"); s.sym(";")
            s.calls.append((ntok, lp, rp, commas, callee, s.cur))
        elif k in ("if", "ifelse"):
            s.kw("if"); s.sym("("); s.cond(); s.sym(")"); s.block(depth - 1)
            if k == "ifelse":
                s.kw("else")
                if r.random() < .3: s.stmt(depth - 1)   # else-if or other non-block
                else: s.block(depth - 1)
        elif k == "if_noblock":
            s.kw("if"); s.sym("("); s.cond(); s.sym(")"); s.stmt(0)
            if r.random() < .5: s.kw("else"); s.stmt(0)
        elif k == "while":
            s.kw("while"); s.sym("("); s.cond(); s.sym(")")
            if r.random() < .8: s.block(depth - 1)
            else: s.stmt(0)
        elif k == "block":
            s.block(depth - 1)
    def block(s, depth):
        s.push('block')
        try: return s._block(depth)
        finally: s.pop()
    def _block(s, depth):
        s.sym("{")
        for _ in range(s.r.randint(0, 3)): s.stmt(depth)
        s.sym("}")

def layout(toks, rng, style="random", gap_comments=0.0):
    """produce text; sets tok.start/end (byte offsets). Comments tokens end the line."""
    out = []; pos = 0
    def emit(x):
        nonlocal pos
        out.append(x); pos += len(x.encode())
    prev = None
    for tk in toks:
        # gap
        if prev is not None:
            if prev.kind == "comment":
                emit("\n" + rng.choice(["", " ", "  ", "\t"]) if style == "random" else "\n")
            elif style == "random":
                need = (prev.kind in ("kw", "id", "int") and tk.kind in ("kw", "id", "int")) or (prev.text in (":", "<", ">") and tk.text in ("=",)) or (prev.text == "/" and tk.text == "/") or (prev.text == "<" and tk.text == ">") or (prev.text == "0" and tk.kind == "id") or tk.kind == "comment" and False
                ws = rng.choice(["", "", " ", " ", "  ", "\n", "\n  ", " \n\n ", "\t"])
                if need and ws == "": ws = " "
                # int followed by ident-like would merge ("1x" -> int 1, ident x is actually fine lexically but keep safe)
                emit(ws)
            else:
                emit(" ")
        tk.start = pos; emit(tk.text); tk.end = pos
        prev = tk
    if prev is not None and prev.kind == "comment": emit("\n")
    elif style == "random": emit(rng.choice(["", "\n", " \n"]))
    return "".join(out)

def pos_of(text_bytes, off):
    """byte offset -> (line, utf16 col)"""
    before = text_bytes[:off].decode()
    line = before.count("\n")
    last = before.rsplit("\n", 1)[-1]
    col = len(last.encode("utf-16-le")) // 2
    return line, col

def generate(seed, **kw):
    rng = random.Random(seed)
    g = Gen(rng, **kw).program()
    text = layout(g.toks, rng)
    return g, text

if __name__ == "__main__":
    import sys
    g, text = generate(int(sys.argv[1]) if len(sys.argv) > 1 else 1)
    print(text)
