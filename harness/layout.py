"""Layout: token list -> text.  White space of a gap is stored on the token that follows it (`tok.pre`),
so a program keeps its layout when the derivation is edited and re-rendered."""
from .gen import Tok

WS_RANDOM = ["", "", " ", " ", "  ", "\n", "\n  ", " \n\n ", "\t", "\n\t"]


def needs_sep(prev, tk):
    """white space is required between two lexemes that would otherwise lex differently"""
    if prev is None: return False
    a, b = prev.text, tk.text
    wordy = ("kw", "id", "int")
    if prev.kind in wordy and tk.kind in wordy: return True
    if a in (":", "<", ">") and b == "=": return True
    if a == "/" and b == "/": return True
    if a == "/" and tk.kind == "comment": return True
    return False


WS_STRAY_CR = WS_RANDOM + ["\r", "\r  ", " \r", "\r\r", "\n\r", "\r\n\n", "\n\r\n", "\r\n\r"]     # lone CRs and mixed line endings


def assign_ws(toks, rng, style="random", eol="\n", force=False, stray_cr=False):
    """give every token (and comment) that has none yet its leading white space.
    stray_cr: some gaps contain a lone carriage return (a line break of its own for LSP positions, plain white space for SPL)"""
    prev = None
    for tk in toks:
        if tk.pre is None or force:
            if style == "random":
                tk.pre = rng.choice(WS_STRAY_CR if stray_cr else WS_RANDOM)
            elif style == "compact":
                tk.pre = ""
            elif style == "spaced":
                tk.pre = " "
            elif style == "lines":
                tk.pre = "\n" if prev is not None else ""
            else:
                raise ValueError(style)
            if eol != "\n": tk.pre = tk.pre.replace("\n", eol)
        prev = tk


def render(toks, eol="\n", final=None):
    """text of the token list; sets tok.start / tok.end (byte offsets). A comment runs to the end of its line,
    so the gap after a comment always starts with a line break."""
    out = []; pos = 0; prev = None
    for tk in toks:
        pre = tk.pre or ""
        if prev is not None and prev.kind == "comment":
            if not (pre.startswith("\n") or pre.startswith("\r\n")): pre = eol + pre
        elif pre == "" and needs_sep(prev, tk):
            pre = " "
        b = pre.encode()
        out.append(pre); pos += len(b)
        tk.start = pos
        out.append(tk.text); pos += len(tk.text.encode())
        tk.end = pos
        prev = tk
    if final is None:
        final = eol if (prev is not None and prev.kind == "comment") else ""
    out.append(final)
    return "".join(out)


def layout(P, rng, style="random", eol="\n", final=None, force=False, stray_cr=False):
    toks = P.index()
    assign_ws(toks, rng, style, eol, force, stray_cr)
    return render(toks, eol, final)


# ------------------------------------------------------------------ positions
class Text:
    """LSP view of a text: lines end at \\n, \\r\\n or \\r; columns count UTF-16 code units."""
    def __init__(s, text):
        s.text = text; s.b = text.encode()
        s.line_starts = [0]     # byte offsets
        i = 0; b = s.b; n = len(b)
        while i < n:
            c = b[i]
            if c == 0x0A: s.line_starts.append(i + 1)
            elif c == 0x0D:
                if i + 1 < n and b[i + 1] == 0x0A: i += 1
                s.line_starts.append(i + 1)
            i += 1

    def pos(s, off):
        """byte offset -> (line, utf16 column)"""
        import bisect
        line = bisect.bisect_right(s.line_starts, off) - 1
        seg = s.b[s.line_starts[line]:off].decode()
        # an offset inside a \r\n pair or after the line break belongs to the next line start; callers pass token offsets
        return line, len(seg.encode("utf-16-le")) // 2

    def lsp(s, off):
        l, c = s.pos(off); return {"line": l, "character": c}

    def rng(s, a, b):
        return {"start": s.lsp(a), "end": s.lsp(b)}

    def line_text(s, line):
        """bytes of a line without its line break"""
        a = s.line_starts[line]
        e = s.line_starts[line + 1] if line + 1 < len(s.line_starts) else len(s.b)
        seg = s.b[a:e]
        while seg and seg[-1] in (0x0A, 0x0D): seg = seg[:-1]
        return seg

    def offset(s, line, ch):
        """(line, utf16 column) -> byte offset, clamped as LSP prescribes"""
        if line >= len(s.line_starts): return len(s.b)
        seg = s.line_text(line).decode()
        u = 0; j = 0
        for chx in seg:
            if u >= ch: break
            u += 2 if ord(chx) > 0xFFFF else 1; j += len(chx.encode())
        return s.line_starts[line] + j

    def nlines(s): return len(s.line_starts)
