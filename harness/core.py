"""Verdict discipline, evidence, known findings, builds, worker pools."""
import json, os, sys, time, subprocess, hashlib, traceback, multiprocessing, random

VERIF = os.path.dirname(os.path.dirname(os.path.abspath(__file__)))
REPO = os.environ.get("VERIF_REPO", "/repo")
WORK = os.path.join(VERIF, ".work")
EVIDENCE = os.path.join(VERIF, "evidence")
REPLAYS = os.path.join(VERIF, "replays")
NCPU = int(os.environ.get("VERIF_JOBS", "0")) or min(16, os.cpu_count() or 4)


class Inconclusive(Exception):
    pass


# ----------------------------------------------------------------------------------------- builds
def _cargo(args, cwd, target, env=None, nightly=False, timeout=1500):
    e = dict(os.environ)
    e.update({"CARGO_NET_OFFLINE": "true", "CARGO_TARGET_DIR": target, "CARGO_TERM_COLOR": "never"})
    if env: e.update(env)
    cmd = ["cargo"] + (["+nightly"] if nightly else []) + args
    t0 = time.time()
    try:
        p = subprocess.run(cmd, cwd=cwd, env=e, capture_output=True, text=True, timeout=timeout)
    except subprocess.TimeoutExpired:
        raise Inconclusive("build timed out: %s" % " ".join(cmd))
    if p.returncode != 0:
        raise Inconclusive("build failed (%s): %s" % (" ".join(cmd), p.stderr.strip()[-1500:]))
    return time.time() - t0


_built = {}


def server_bin(variant="rel"):
    """(re)build the server from /repo's current working tree with the `verif` feature; returns the binary path"""
    if variant in _built: return _built[variant]
    os.makedirs(WORK, exist_ok=True)
    if variant == "rel":
        target = os.path.join(WORK, "target-srv")
        _cargo(["build", "--release", "-p", "lsp4spl", "--features", "verif", "--offline"], REPO, target)
        path = os.path.join(target, "release", "lsp4spl")
    elif variant == "chk":
        target = os.path.join(WORK, "target-srv-chk")
        _cargo(["build", "--release", "-p", "lsp4spl", "--features", "verif", "--offline"], REPO, target,
               env={"RUSTFLAGS": "-C debug-assertions=on -C overflow-checks=on"})
        path = os.path.join(target, "release", "lsp4spl")
    elif variant == "asan":
        target = os.path.join(WORK, "target-srv-asan")
        _cargo(["build", "--release", "-p", "lsp4spl", "--features", "verif", "--offline", "--target", "x86_64-unknown-linux-gnu"], REPO, target,
               env={"RUSTFLAGS": "-Zsanitizer=address -Cforce-frame-pointers=yes"}, nightly=True)
        path = os.path.join(target, "x86_64-unknown-linux-gnu", "release", "lsp4spl")
    elif variant == "tsan":
        target = os.path.join(WORK, "target-srv-tsan")
        _cargo(["build", "--release", "-p", "lsp4spl", "--features", "verif", "-Zbuild-std", "--target", "x86_64-unknown-linux-gnu"], REPO, target,
               env={"RUSTFLAGS": "-Zsanitizer=thread", "CARGO_NET_OFFLINE": "true"}, nightly=True, timeout=2400)
        path = os.path.join(target, "x86_64-unknown-linux-gnu", "release", "lsp4spl")
    else:
        raise ValueError(variant)
    if not os.path.exists(path): raise Inconclusive("binary missing after build: " + path)
    _built[variant] = path
    return path


def adaptor_bin():
    if "adaptor" in _built: return _built["adaptor"]
    target = os.path.join(WORK, "target-adaptor")
    _cargo(["build", "--release", "--offline"], os.path.join(VERIF, "adaptor"), target)
    path = os.path.join(target, "release", "fe-adaptor")
    if not os.path.exists(path): raise Inconclusive("adaptor missing after build")
    _built["adaptor"] = path
    return path


class Adaptor:
    """JSON-lines client of the fe-adaptor process"""
    def __init__(s, path=None):
        s.path = path or adaptor_bin()
        s.p = subprocess.Popen([s.path], stdin=subprocess.PIPE, stdout=subprocess.PIPE, stderr=subprocess.DEVNULL)

    def call(s, **req):
        try:
            s.p.stdin.write(json.dumps(req).encode() + b"\n"); s.p.stdin.flush()
            line = s.p.stdout.readline()
        except BrokenPipeError:
            line = b""
        if not line:
            st = s.p.wait()
            # the adaptor process died (abort, stack overflow, OOM): observable fact, reported to the caller
            s.__init__(s.path)
            return {"adaptor_died": st}
        return json.loads(line)

    def close(s):
        try: s.p.stdin.close(); s.p.wait(5)
        except Exception: s.p.kill()

    def __del__(s):
        try: s.p.kill()
        except Exception: pass


# ----------------------------------------------------------------------------------------- known findings
def load_findings():
    with open(os.path.join(VERIF, "known_findings.json")) as f:
        return json.load(f)


# ----------------------------------------------------------------------------------------- run context
class Ctx:
    """Collects what one run of one check observed; writes evidence; decides the exit status."""
    def __init__(s, prop, tier, seed, level="exploration"):
        s.prop, s.tier, s.seed, s.level = prop, tier, seed, level
        s.t0 = time.time()
        s.evaluations = 0
        s.distinct = set()
        s.samples = []
        s.extra = {}
        s.rule = ""
        s.assumptions = []
        s.violations = []        # (description, replay path)
        s.known_seen = {}        # finding id -> [count, text]
        s.inconclusive = []
        s.floors = []            # (name, value, minimum)
        s.exhaustive = None
        s.findings = [f for f in load_findings().get("findings", []) if f.get("property") == prop]
        s.quick = tier == "quick"

    def rng(s, salt=""):
        return random.Random("%s/%s/%s" % (s.prop, s.seed, salt))

    def count(s, n=1): s.evaluations += n

    def see(s, key): s.distinct.add(key)

    def sample(s, obj, limit=6):
        if len(s.samples) < limit: s.samples.append(obj)

    def floor(s, name, value, minimum): s.floors.append((name, value, minimum))

    def violation(s, desc, scenario):
        """record a violation; the scenario (JSON) is written as the replay file"""
        os.makedirs(REPLAYS, exist_ok=True)
        blob = json.dumps({"property": s.prop, "description": desc, "scenario": scenario}, indent=1, ensure_ascii=False, default=str)
        h = hashlib.sha1(blob.encode()).hexdigest()[:12]
        path = os.path.join(REPLAYS, "%s-%s.json" % (s.prop, h))
        with open(path, "w") as f: f.write(blob)
        s.violations.append((desc, path))
        s.distinct.add(("violating scenario", h))        # a violating scenario is a non-trivial case that was evaluated
        if len(s.violations) <= 20:
            print("VIOLATION property=%s replay=%s" % (s.prop, path)); print("  " + str(desc)[:600]); sys.stdout.flush()

    def known(s, fid, text):
        e = s.known_seen.setdefault(fid, [0, text]); e[0] += 1

    def merge(s, part):
        """fold the result of a worker (dict) into this context"""
        s.evaluations += part.get("evaluations", 0)
        s.distinct |= set(part.get("distinct", ()))
        for x in part.get("samples", ()): s.sample(x)
        for desc, sc in part.get("failures", ()): s.violation(desc, sc)
        for fid, (n, text) in part.get("known", {}).items():
            e = s.known_seen.setdefault(fid, [0, text]); e[0] += n
        for k, v in part.get("counters", {}).items():
            s.extra.setdefault("counters", {}); s.extra["counters"][k] = s.extra["counters"].get(k, 0) + v
        for k, v in part.get("sets", {}).items():
            s.extra.setdefault("_sets", {}).setdefault(k, set()).update(v)
        if part.get("inconclusive"): s.inconclusive.extend(part["inconclusive"])

    def finding(s, fid):
        for f in s.findings:
            if f["id"] == fid: return f
        return None

    def open_findings(s):
        return [f for f in s.findings if f.get("status") == "open"]

    def finish(s):
        wall = time.time() - s.t0
        for name, value, minimum in s.floors:
            if value < minimum: s.inconclusive.append("too few observations: %s = %s < %s" % (name, value, minimum))
        cov = {"evaluations": int(s.evaluations), "distinct_nontrivial": len(s.distinct), "rule": s.rule, "samples": s.samples or ["(none)"]}
        if s.exhaustive is not None: cov["exhaustive"] = bool(s.exhaustive)
        cov["known_findings_seen"] = {k: {"count": v[0], "what": v[1]} for k, v in s.known_seen.items()}
        cov["floors"] = [{"name": n, "value": v, "minimum": m} for n, v, m in s.floors]
        for k, v in s.extra.pop("_sets", {}).items():
            cov[k + "_count"] = len(v); cov[k] = sorted(v, key=str)[:60]
        cov.update(s.extra)
        ev = {"property_id": s.prop, "tier": s.tier, "seed": int(s.seed), "level": s.level, "coverage": cov,
              "assumptions": s.assumptions, "wall_s": round(wall, 2), "violations": len(s.violations)}
        if s.inconclusive: ev["coverage"]["inconclusive"] = s.inconclusive
        os.makedirs(EVIDENCE, exist_ok=True)
        with open(os.path.join(EVIDENCE, s.prop + ".json"), "w") as f:
            json.dump(ev, f, indent=1, ensure_ascii=False, default=str)
        for fid, (n, text) in sorted(s.known_seen.items()):
            print("KNOWN-FINDING: property=%s %s: %s (seen %d times)" % (s.prop, fid, text, n))
        if s.violations:
            if len(s.violations) > 20: print("... %d violations in total" % len(s.violations))
            print("RESULT %s violated: %d violation(s), %d evaluations, %.1fs" % (s.prop, len(s.violations), s.evaluations, wall))
            return 1
        if s.inconclusive:
            for r in s.inconclusive: print("INCONCLUSIVE property=%s reason=%s" % (s.prop, r))
            return 2
        print("RESULT %s held on %d evaluations (%d distinct non-trivial cases), tier=%s seed=%s, %.1fs" % (s.prop, s.evaluations, len(s.distinct), s.tier, s.seed, wall))
        return 0


# ----------------------------------------------------------------------------------------- worker pool
def _init_worker():
    import signal
    signal.signal(signal.SIGINT, signal.SIG_IGN)


def pmap(fn, items, jobs=None, chunksize=1):
    """map over a process pool (fork); results in order; exceptions in workers become Inconclusive"""
    jobs = jobs or NCPU
    items = list(items)
    if jobs <= 1 or len(items) <= 1:
        return [fn(x) for x in items]
    ctx = multiprocessing.get_context("fork")
    with ctx.Pool(min(jobs, len(items)), initializer=_init_worker) as pool:
        try:
            return pool.map(fn, items, chunksize)
        except Inconclusive:
            raise
        except Exception as e:
            raise Inconclusive("worker failed: %s\n%s" % (e, traceback.format_exc()[-1500:]))


def run_check(prop, tier, seed, fn, level="exploration"):
    ctx = Ctx(prop, tier, seed, level)
    try:
        fn(ctx)
    except Inconclusive as e:
        ctx.inconclusive.append(str(e).replace("\n", " | ")[:1500])
    except Exception as e:
        ctx.inconclusive.append("harness error: %s | %s" % (e, traceback.format_exc().replace("\n", " | ")[-1500:]))
    return ctx.finish()


class Part(dict):
    """result of one worker, merged into the Ctx by the parent"""
    def __init__(s):
        dict.__init__(s, evaluations=0, distinct=set(), samples=[], failures=[], known={}, counters={}, sets={}, inconclusive=[])

    def ev(s, n=1): s["evaluations"] += n

    def see(s, key): s["distinct"].add(key)

    def sample(s, x, limit=3):
        if len(s["samples"]) < limit: s["samples"].append(x)

    def fail(s, desc, scenario, limit=8):
        s.cnt("failures_total")
        if len(s["failures"]) < limit: s["failures"].append((desc, scenario))

    def known(s, fid, text):
        e = s["known"].setdefault(fid, [0, text]); e[0] += 1

    def cnt(s, k, n=1): s["counters"][k] = s["counters"].get(k, 0) + n

    def add(s, k, v): s["sets"].setdefault(k, set()).add(v)
